#!/bin/bash
# seedrun.sh <id> <check...> : apply a seeded change to /repo, run the given checks (quick), undo.
ID=$1; shift
P=/tmp/seed-out-$ID/patch.rebased.diff
[ -f /verif/seeded/$ID/patch.diff ] && P=/verif/seeded/$ID/patch.diff
cd /repo && git status --short | grep -v '^??' && { echo "repo dirty"; exit 1; }
git -C /repo apply $P || { echo "patch does not apply"; exit 1; }
for c in "$@"; do
  tier=quick; case $c in *:thorough) tier=thorough; c=${c%:thorough};; esac
  (cd /verif && ./check $c $tier 2>&1 | grep -E "^\[C|VIOLATION|INCONCLUSIVE|signature|KNOWN" | cut -c1-260)
done
git -C /repo checkout -- .
git -C /repo status --short | grep -v '^??'
