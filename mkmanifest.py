#!/usr/bin/env python3
"""Regenerate MANIFEST.json from propconf.py (run by hand after editing propconf)."""
import json, os, subprocess, sys
V = os.path.dirname(os.path.abspath(__file__))
sys.path.insert(0, V)
from propconf import PROPS, META
ids = [json.loads(l)['id'] for l in open(V + '/properties.jsonl')]
checks, na = [], []
for i in ids:
    if i in PROPS:
        c, m = PROPS[i], META[i]
        checks.append(dict(
            property_id=i, quick_cmd=f'./check {i} quick', thorough_cmd=f'./check {i} thorough',
            evidence_file=f'/verif/evidence/{i}.json', replay_cmd_template=f'./check {i} quick --replay {{path}}',
            engine='vh', level_claimed=dict(category=c['level'], text=m['text'], design_ref=m.get('design_ref', f'DESIGN.md §4 {i}')),
            level_note=m['note'], technique=m['technique']))
    else:
        na.append(dict(property_id=i, reason=META.get(i, {}).get('na', 'monitor not built yet in this session; see DESIGN.md §4 for the planned oracle')))
hooks = subprocess.run(['git', '-C', '/repo', 'log', '--format=%h %s', '--grep=^verif hook'], capture_output=True, text=True).stdout.strip().splitlines()
man = dict(
    version=1,
    setup_cmd='./setup.sh',
    hooks=dict(guard='verif', enable='go build -tags verif -overlay=/verif/build/overlay.json (done by ./check)',
               baseline_off_cmd='cd /repo && GOFLAGS=-mod=mod GOPROXY=off GOSUMDB=off GOTOOLCHAIN=local go test -json -vet=off -count=1 -timeout 25m ./cmd/slicetrace/... ./internal/walker/... ./internal/zero/... ./slicefunc/... ./slicetype/... ./stats/... ./typecheck/...',
               source_commits=[h.split()[0] for h in hooks], add_only=True),
    engines=[dict(name='vh', path='/verif/harness', serves_properties=[c['property_id'] for c in checks],
                  kind_free_text='Go harness binary (one subcommand per property) run as journalled child processes by the python orchestrator ./check; monitors observe the real /repo code built through the shim')],
    checks=checks, not_applicable=na,
    notes='Runtime monitoring only. See DESIGN.md. Exit 0 held / 1 VIOLATION / 2 inconclusive.')
json.dump(man, open(V + '/MANIFEST.json', 'w'), indent=1)
print(len(checks), 'checks;', len(na), 'not claimed')
