// Package vf is the small framework shared by all property monitors: deterministic
// PRNG, case enumeration split over child batches, journal-before-execute, and the
// per-batch report that the orchestrator (/verif/check) merges into evidence.
package vf

import (
	"bufio"
	"crypto/sha256"
	"encoding/hex"
	"encoding/json"
	"fmt"
	"os"
	"runtime/debug"
	"sort"
	"strings"
	"sync"
	"time"
)

// Rand is splitmix64; case lists are functions of (seed, tier) only.
type Rand struct{ s uint64 }

func NewRand(seed uint64) *Rand { return &Rand{s: seed*0x9E3779B97F4A7C15 + 0x1234567} }
func (r *Rand) Uint64() uint64 {
	r.s += 0x9E3779B97F4A7C15
	z := r.s
	z = (z ^ (z >> 30)) * 0xBF58476D1CE4E5B9
	z = (z ^ (z >> 27)) * 0x94D049BB133111EB
	return z ^ (z >> 31)
}
func (r *Rand) Intn(n int) int {
	if n <= 0 {
		return 0
	}
	return int(r.Uint64() % uint64(n))
}
func (r *Rand) Bool() bool                { return r.Uint64()&1 == 1 }
func (r *Rand) Chance(p float64) bool     { return float64(r.Uint64()>>11)/float64(1<<53) < p }
func (r *Rand) Fork() *Rand               { return &Rand{s: r.Uint64()} }
func (r *Rand) Pick(xs ...int) int        { return xs[r.Intn(len(xs))] }
func (r *Rand) PickS(xs ...string) string { return xs[r.Intn(len(xs))] }

// Violation is one refuting observation. Sig is the signature matched against
// known_findings.json; it must identify the failing input class/call site, not the property.
type Violation struct {
	Sig   string          `json:"sig"`
	What  string          `json:"what"`
	Index int             `json:"index"`
	Case  json.RawMessage `json:"case"`
	Count int             `json:"count"`
}

type Inconclusive struct {
	Why   string          `json:"why"`
	Index int             `json:"index"`
	Case  json.RawMessage `json:"case,omitempty"`
}

// Report is what one child batch hands back.
type Report struct {
	Property     string              `json:"property"`
	Tier         string              `json:"tier"`
	Seed         uint64              `json:"seed"`
	Batch        int                 `json:"batch"`
	NBatch       int                 `json:"nbatch"`
	Evaluations  int                 `json:"evaluations"`
	Nontrivial   []string            `json:"nontrivial"`
	Samples      []json.RawMessage   `json:"samples"`
	Counters     map[string]int64    `json:"counters"`
	Sets         map[string][]string `json:"sets"`
	Cross        map[string]string   `json:"cross"`
	Violations   []*Violation        `json:"violations"`
	Inconclusive []Inconclusive      `json:"inconclusive"`
	Done         bool                `json:"done"`
}

// T is the handle a monitor uses while running one case.
type T struct {
	run     *Runner
	index   int
	desc    any
	nontriv bool
	ntKey   string
	failed  bool
}

// Runner drives the cases of one batch.
type Runner struct {
	// Abandoned, if set, is asked before every case; a non-empty answer means that the process is
	// no longer in a state in which further cases can be judged.
	Abandoned           func() string
	skippedAfterAbandon int
	Property            string
	Tier                string
	Seed                uint64
	Batch               int
	NBatch              int
	// Replay, when >= 0, runs only the case with that index.
	Replay int

	mu      sync.Mutex
	rep     Report
	nt      map[string]struct{}
	sets    map[string]map[string]struct{}
	bySig   map[string]*Violation
	journal *bufio.Writer
	jf      *os.File
	next    int
	maxSamp int
	skip    map[int]bool
	slowest int
}

func NewRunner(prop, tier string, seed uint64, batch, nbatch int, journalPath string) *Runner {
	r := &Runner{Property: prop, Tier: tier, Seed: seed, Batch: batch, NBatch: nbatch, Replay: -1,
		nt: map[string]struct{}{}, sets: map[string]map[string]struct{}{}, bySig: map[string]*Violation{}, maxSamp: 4}
	r.rep = Report{Property: prop, Tier: tier, Seed: seed, Batch: batch, NBatch: nbatch, Counters: map[string]int64{}}
	r.skip = map[int]bool{}
	for _, f := range strings.Split(os.Getenv("VERIF_SKIP"), ",") {
		var i int
		if _, err := fmt.Sscanf(f, "%d", &i); err == nil {
			r.skip[i] = true
		}
	}
	if journalPath != "" {
		f, err := os.Create(journalPath)
		if err != nil {
			panic(err)
		}
		r.jf = f
		r.journal = bufio.NewWriter(f)
	}
	return r
}

func (r *Runner) Quick() bool { return r.Tier != "thorough" }

// Rand returns a PRNG stream determined by the seed and a label.
func (r *Runner) Rand(label string) *Rand {
	h := sha256.Sum256([]byte(fmt.Sprintf("%s/%s/%d", r.Property, label, r.Seed)))
	var s uint64
	for i := 0; i < 8; i++ {
		s = s<<8 | uint64(h[i])
	}
	return &Rand{s: s}
}

// Case runs fn on case desc if it belongs to this batch. Every batch enumerates the same
// case list; case i is executed by batch i%NBatch. desc must be JSON-marshalable and is
// what a replay file holds. A panic inside fn is recovered and reported as a violation
// with signature "panic:<site>" unless the monitor classifies it itself.
func (r *Runner) Case(desc any, fn func(t *T)) {
	i := r.next
	r.next++
	if r.Replay >= 0 {
		if i != r.Replay {
			return
		}
	} else if i%r.NBatch != r.Batch {
		return
	}
	if r.skip[i] {
		return
	}
	t := &T{run: r, index: i, desc: desc}
	if r.Abandoned != nil {
		if why := r.Abandoned(); why != "" {
			// An earlier case left work running in this process (a run the watchdog gave up on):
			// later cases would share package-level state with it. They are not executed; the
			// watchdog firing has made the whole check inconclusive already.
			r.mu.Lock()
			r.skippedAfterAbandon++
			r.mu.Unlock()
			if r.skippedAfterAbandon == 1 {
				t.Inconclusive("cases after this point were not executed in this child: " + why)
			}
			return
		}
	}
	if r.journal != nil {
		b, _ := json.Marshal(desc)
		fmt.Fprintf(r.journal, "%d\t%s\n", i, b)
		r.journal.Flush()
	}
	t0 := time.Now()
	defer func() {
		if d := int64(time.Since(t0) / time.Millisecond); d > r.rep.Counters["max_case_ms"] {
			r.mu.Lock()
			r.rep.Counters["max_case_ms"] = d
			r.slowest = i
			r.mu.Unlock()
		}
	}()
	func() {
		defer func() {
			if e := recover(); e != nil {
				site := PanicSite(debug.Stack())
				t.Violate("panic:"+site, fmt.Sprintf("panic: %v at %s", e, site))
			}
		}()
		fn(t)
	}()
	r.mu.Lock()
	r.rep.Evaluations++
	if t.nontriv {
		k := t.ntKey
		if k == "" {
			b, _ := json.Marshal(desc)
			k = string(b)
		}
		h := sha256.Sum256([]byte(k))
		r.nt[hex.EncodeToString(h[:8])] = struct{}{}
		if len(r.rep.Samples) < r.maxSamp {
			b, _ := json.Marshal(desc)
			if len(b) < 4000 {
				r.rep.Samples = append(r.rep.Samples, b)
			}
		}
	}
	r.mu.Unlock()
	if r.journal != nil {
		fmt.Fprintf(r.journal, "%d\tdone\n", i)
	}
}

// mine tells whether the case with index i is executed by this process.
func (r *Runner) mine(i int) bool {
	if r.Replay >= 0 {
		return i == r.Replay
	}
	return i%r.NBatch == r.Batch && !r.skip[i]
}

// CaseLazy is Case for descriptors that are expensive to generate: gen is called only if
// the case belongs to this batch. gen must be a pure function of values fixed before the
// call (fork the PRNG outside, so that the stream advances identically in every batch).
func (r *Runner) CaseLazy(gen func() any, fn func(t *T, desc any)) {
	if !r.mine(r.next) {
		r.next++
		return
	}
	d := gen()
	r.Case(d, func(t *T) { fn(t, d) })
}

// CaseAll runs fn in every batch (it is not part of the round-robin split): used for
// observations that must be compared across separately started OS processes.
func (r *Runner) CaseAll(desc any, fn func(t *T)) {
	if r.Replay >= 0 {
		return
	}
	saveB, saveN := r.Batch, r.NBatch
	r.Batch, r.NBatch = 0, 1
	i := r.next
	r.next = -1000000 + i // index space of its own, so that it does not shift the split
	r.Case(desc, fn)
	r.next = i
	r.Batch, r.NBatch = saveB, saveN
}

// Cross records a value that the orchestrator compares across all child processes.
func (t *T) Cross(name, value string) {
	t.run.mu.Lock()
	if t.run.rep.Cross == nil {
		t.run.rep.Cross = map[string]string{}
	}
	t.run.rep.Cross[name] = value
	t.run.mu.Unlock()
}

// Index returns the global index of the case.
func (t *T) Index() int { return t.index }

// Nontrivial marks the case as having reached the mechanism under test. key, if non-empty,
// is the canonical identity used for the distinct count (default: the descriptor).
func (t *T) Nontrivial(key string) { t.nontriv = true; t.ntKey = key }

func (t *T) Count(name string, n int64) {
	t.run.mu.Lock()
	t.run.rep.Counters[name] += n
	t.run.mu.Unlock()
}

// Max records the maximum of a gauge.
func (t *T) Max(name string, v int64) {
	t.run.mu.Lock()
	if v > t.run.rep.Counters[name] {
		t.run.rep.Counters[name] = v
	}
	t.run.mu.Unlock()
}

// Seen adds an element to a named set whose distinct size is reported (bounded at 5000).
func (t *T) Seen(set, elem string) {
	t.run.mu.Lock()
	m := t.run.sets[set]
	if m == nil {
		m = map[string]struct{}{}
		t.run.sets[set] = m
	}
	if len(m) < 200000 {
		m[elem] = struct{}{}
	}
	t.run.mu.Unlock()
}

func (t *T) Violate(sig, what string) {
	t.failed = true
	r := t.run
	r.mu.Lock()
	defer r.mu.Unlock()
	if v := r.bySig[sig]; v != nil {
		v.Count++
		return
	}
	b, _ := json.Marshal(t.desc)
	if len(what) > 3000 {
		what = what[:3000] + "…"
	}
	v := &Violation{Sig: sig, What: what, Index: t.index, Case: b, Count: 1}
	r.bySig[sig] = v
	r.rep.Violations = append(r.rep.Violations, v)
}

func (t *T) Violatef(sig, format string, args ...any) { t.Violate(sig, fmt.Sprintf(format, args...)) }
func (t *T) Failed() bool                             { return t.failed }

func (t *T) Inconclusive(why string) {
	r := t.run
	r.mu.Lock()
	defer r.mu.Unlock()
	if len(r.rep.Inconclusive) < 50 {
		b, _ := json.Marshal(t.desc)
		r.rep.Inconclusive = append(r.rep.Inconclusive, Inconclusive{Why: why, Index: t.index, Case: b})
	}
	r.rep.Counters["inconclusive"]++
}

// Finish writes the report.
func (r *Runner) Finish(path string) {
	r.mu.Lock()
	defer r.mu.Unlock()
	for k := range r.nt {
		r.rep.Nontrivial = append(r.rep.Nontrivial, k)
	}
	sort.Strings(r.rep.Nontrivial)
	r.rep.Sets = map[string][]string{}
	for name, m := range r.sets {
		var xs []string
		for k := range m {
			xs = append(xs, k)
		}
		sort.Strings(xs)
		r.rep.Sets[name] = xs
	}
	r.rep.Counters["slowest_case_index"] = int64(r.slowest)
	r.rep.Done = true
	b, err := json.Marshal(&r.rep)
	if err != nil {
		panic(err)
	}
	if r.journal != nil {
		r.journal.Flush()
		r.jf.Close()
	}
	if path == "" || path == "-" {
		os.Stdout.Write(b)
		return
	}
	if err := os.WriteFile(path+".tmp", b, 0644); err != nil {
		panic(err)
	}
	os.Rename(path+".tmp", path)
}

// PanicSite extracts the innermost frame inside bigslice (/repo) from a stack dump, as
// "file.go:func"; line numbers are omitted so that signatures survive unrelated edits.
func PanicSite(stack []byte) string {
	lines := strings.Split(string(stack), "\n")
	for i := 0; i+1 < len(lines); i++ {
		fn := strings.TrimSpace(lines[i])
		loc := strings.TrimSpace(lines[i+1])
		if !strings.HasPrefix(fn, "github.com/grailbio/bigslice") {
			continue
		}
		if j := strings.Index(fn, "("); j > 0 && strings.HasSuffix(fn, ")") {
			// strip the argument list "(0x..., ...)"
			if k := strings.LastIndex(fn, "("); k > 0 {
				fn = fn[:k]
			}
		}
		fn = strings.TrimPrefix(fn, "github.com/grailbio/bigslice/")
		fn = strings.TrimPrefix(fn, "github.com/grailbio/bigslice.")
		_ = loc
		return fn
	}
	return "outside-bigslice"
}

// Hash returns a short stable hash of s.
func Hash(s string) string {
	h := sha256.Sum256([]byte(s))
	return hex.EncodeToString(h[:6])
}
