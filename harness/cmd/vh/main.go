// Command vh is the single harness binary: one subcommand per property. All
// bigslice.Funcs used by any monitor are registered (in package props) in one fixed
// order in every process, as the distributed executor requires.
package main

import (
	"flag"
	"fmt"
	"os"
	"runtime/pprof"
	"time"

	"verifharness/internal/vf"
	"verifharness/props"
)

func main() {
	prop := flag.String("prop", "", "property id")
	tier := flag.String("tier", "quick", "quick|thorough")
	seed := flag.Uint64("seed", 1, "VERIF_SEED")
	batch := flag.Int("batch", 0, "batch index")
	nbatch := flag.Int("nbatch", 1, "number of batches")
	out := flag.String("out", "-", "report path")
	journal := flag.String("journal", "", "journal path")
	replay := flag.Int("replay", -1, "run only the case with this index")
	flag.Parse()
	fn := props.Registry[*prop]
	if fn == nil {
		fmt.Fprintf(os.Stderr, "unknown property %q\n", *prop)
		os.Exit(3)
	}
	r := vf.NewRunner(*prop, *tier, *seed, *batch, *nbatch, *journal)
	r.Replay = *replay
	r.Abandoned = props.AbandonedWork
	if p := os.Getenv("VERIF_CPUPROFILE"); p != "" {
		f, _ := os.Create(p)
		pprof.StartCPUProfile(f)
		defer pprof.StopCPUProfile()
	}
	t0 := time.Now()
	defer func() {
		if os.Getenv("VERIF_TIMING") != "" {
			fmt.Fprintf(os.Stderr, "total %v\n", time.Since(t0))
		}
	}()
	props.Setup()
	fn(r)
	r.Finish(*out)
}
