package props

import (
	"crypto/sha256"
	"fmt"
	"os"
	"sort"
	"strings"

	"github.com/grailbio/bigslice"
	"github.com/grailbio/bigslice/exec"
	"verifharness/internal/vf"
)

// C08 — an invocation compiles to the same well-formed task graph everywhere.

func init() { Registry["C08"] = runC08 }

type c08case struct {
	Spec      Spec `json:"spec"`
	Combiners bool `json:"machinecombiners"`
	WithArg   bool `json:"resultarg"` // the program consumes a Result of an earlier invocation
	// Cache programs: bitmask of shard files present when the driver compiles, and when the
	// worker compiles (files appear and vanish between the two, e.g. written by other workers).
	CacheShards   int `json:"cacheshards,omitempty"`
	DriverPresent int `json:"driverpresent,omitempty"`
	WorkerPresent int `json:"workerpresent,omitempty"`
}

func c08setFiles(dir string, n, mask int) {
	for s := 0; s < n; s++ {
		p := cachePath(dir, s, n)
		if mask&(1<<uint(s)) != 0 {
			os.WriteFile(p, []byte("x"), 0644)
		} else {
			os.Remove(p)
		}
	}
}

// allTasks walks the graph from the roots (through Deps and phase groups).
func allTasks(roots []*exec.Task) ([]*exec.Task, bool) {
	seen := map[*exec.Task]int{} // 1 = on stack, 2 = done
	var order []*exec.Task
	cyclic := false
	var walk func(t *exec.Task)
	walk = func(t *exec.Task) {
		switch seen[t] {
		case 1:
			cyclic = true
			return
		case 2:
			return
		}
		seen[t] = 1
		for _, d := range t.Deps {
			for i := 0; i < d.NumTask(); i++ {
				walk(d.Task(i))
			}
		}
		seen[t] = 2
		order = append(order, t)
	}
	for _, r := range roots {
		walk(r)
	}
	return order, cyclic
}

// dumpGraph is the canonical text of a task graph. Invocation indices are replaced by
// their position relative to the root invocation so that dumps of the same program compiled
// as different invocations compare equal.
func dumpGraph(roots []*exec.Task, rootInv uint64) string {
	tasks, _ := allTasks(roots)
	name := func(t *exec.Task) string {
		return fmt.Sprintf("inv%+d/%s", int64(t.Name.InvIndex)-int64(rootInv), stripInv(t.Name.String()))
	}
	var lines []string
	for _, t := range tasks {
		var deps []string
		for _, d := range t.Deps {
			var members []string
			for i := 0; i < d.NumTask(); i++ {
				members = append(members, name(d.Task(i)))
			}
			deps = append(deps, fmt.Sprintf("{part=%d expand=%v ck=%q [%s]}", d.Partition, d.Expand, stripInv(d.CombineKey), strings.Join(members, " ")))
		}
		var slices []string
		for _, s := range t.Slices {
			slices = append(slices, s.Name().Op)
		}
		var grp []string
		for _, g := range t.Group {
			grp = append(grp, name(g))
		}
		lines = append(lines, fmt.Sprintf("%s np=%d comb=%v ck=%q defpart=%v procs=%d excl=%v out=%d prefix=%d slices=%v group=[%s] deps=%s",
			name(t), t.NumPartition, !t.Combiner.IsNil(), stripInv(t.CombineKey), exec.VerifIsDefaultPartitioner(t), t.Pragma.Procs(), t.Pragma.Exclusive(), t.NumOut(), t.Prefix(),
			slices, strings.Join(grp, " "), strings.Join(deps, ";")))
	}
	sort.Strings(lines)
	var roots2 []string
	for _, r := range roots {
		roots2 = append(roots2, name(r))
	}
	return "roots: " + strings.Join(roots2, " ") + "\n" + strings.Join(lines, "\n")
}

// stripInv removes the absolute invocation number embedded in operation names ("inv12_...").
func stripInv(s string) string {
	out := s
	for {
		i := strings.Index(out, "inv")
		if i < 0 {
			return out
		}
		j := i + 3
		for j < len(out) && out[j] >= '0' && out[j] <= '9' {
			j++
		}
		if j == i+3 {
			return out
		}
		out = out[:i] + "INV" + out[j:]
	}
}

func isShuffleOp(op string) bool {
	switch op {
	case "fold", "reduce", "cogroup", "reshuffle", "repartition", "reshard":
		return true
	}
	return false
}

// checkGraph checks the structural properties against the slice DAG.
func checkGraph(roots []*exec.Task, result bigslice.Slice) string {
	tasks, cyclic := allTasks(roots)
	if cyclic {
		return "cycle: the task graph is cyclic"
	}
	names := map[string]bool{}
	for _, t := range tasks {
		n := fmt.Sprintf("%d/%s", t.Name.InvIndex, t.Name.String())
		if names[n] {
			return "duplicate-name: " + n
		}
		names[n] = true
	}
	// a combine key names one machine-level combine buffer: the tasks that carry it must all belong
	// to one stage (one op name), and every consumer that reads a combined stage must name the key its
	// producers write to
	keyOp := map[string]string{}
	for _, t := range tasks {
		if t.CombineKey == "" {
			continue
		}
		if op, ok := keyOp[t.CombineKey]; ok && op != t.Name.Op {
			return fmt.Sprintf("combine-key-shared: combine key %s is carried by tasks of two stages, %s and %s", t.CombineKey, op, t.Name.Op)
		}
		keyOp[t.CombineKey] = t.Name.Op
	}
	for _, t := range tasks {
		for _, d := range t.Deps {
			for i := 0; i < d.NumTask(); i++ {
				if p := d.Task(i); p.CombineKey != d.CombineKey {
					return fmt.Sprintf("combine-key-wiring: %s reads combine key %q from producer %s, which writes to %q", t.Name, d.CombineKey, p.Name, p.CombineKey)
				}
			}
		}
	}
	if len(roots) != result.NumShard() {
		return fmt.Sprintf("root-count: %d root tasks for a result of %d shards", len(roots), result.NumShard())
	}
	for _, t := range tasks {
		// one task per shard of each stage
		if t.Name.NumShard <= 0 || t.Name.Shard < 0 || t.Name.Shard >= t.Name.NumShard {
			return fmt.Sprintf("shard-index: task %s", t.Name)
		}
		if len(t.Slices) > 0 {
			if t.Slices[0].NumShard() != t.Name.NumShard {
				return fmt.Sprintf("tasks-per-stage: task %s has NumShard %d, its slice has %d shards", t.Name, t.Name.NumShard, t.Slices[0].NumShard())
			}
			// pipelining: consecutive slices must be joined by a single non-shuffle dependency, the
			// producer must not be materialized nor a Result
			for i := 0; i+1 < len(t.Slices); i++ {
				cons, prod := t.Slices[i], t.Slices[i+1]
				if cons.NumDep() != 1 {
					return fmt.Sprintf("pipeline: task %s pipelines through %s which has %d dependencies", t.Name, cons.Name().Op, cons.NumDep())
				}
				d := cons.Dep(0)
				if d.Shuffle {
					return fmt.Sprintf("pipeline-across-shuffle: task %s pipelines %s into %s across a shuffle", t.Name, prod.Name().Op, cons.Name().Op)
				}
				if p, ok := d.Slice.(bigslice.Pragma); ok && p.Materialize() {
					return fmt.Sprintf("pipeline-across-materialize: task %s pipelines through materialized %s", t.Name, prod.Name().Op)
				}
				if _, ok := bigslice.Unwrap(d.Slice).(*exec.Result); ok {
					return fmt.Sprintf("pipeline-across-result: task %s pipelines a reused result", t.Name)
				}
			}
			last := t.Slices[len(t.Slices)-1]
			// wiring of the dependencies of the last slice
			k := 0
			for di := 0; di < last.NumDep(); di++ {
				d := last.Dep(di)
				if k >= len(t.Deps) {
					break // cached shards drop their dependencies
				}
				td := t.Deps[k]
				k++
				if d.Shuffle {
					if td.Partition != t.Name.Shard {
						return fmt.Sprintf("shuffle-wiring: shard %d of %s reads partition %d", t.Name.Shard, t.Name.Op, td.Partition)
					}
					n := td.NumTask()
					if n != d.Slice.NumShard() {
						return fmt.Sprintf("shuffle-wiring: %s depends on %d producer tasks, the producer slice has %d shards", t.Name, n, d.Slice.NumShard())
					}
					for i := 0; i < n; i++ {
						p := td.Task(i)
						if p.NumPartition != t.Name.NumShard {
							return fmt.Sprintf("partition-count: producer %s has %d partitions, consumer %s has %d shards", p.Name, p.NumPartition, t.Name.Op, t.Name.NumShard)
						}
						if p.Name.Shard != i {
							return fmt.Sprintf("shuffle-wiring: producer %d of %s is shard %d", i, t.Name, p.Name.Shard)
						}
					}
				} else {
					if td.NumTask() != 1 || td.Task(0).Name.Shard != t.Name.Shard || td.Partition != 0 {
						return fmt.Sprintf("narrow-wiring: %s shard %d depends on shard %d partition %d", t.Name.Op, t.Name.Shard, td.Task(0).Name.Shard, td.Partition)
					}
				}
			}
		}
		for _, g := range t.Group {
			if g.Name.Op != t.Name.Op {
				return fmt.Sprintf("group: task %s grouped with %s", t.Name, g.Name)
			}
		}
	}
	return ""
}

func runC08case(t *vf.T, c c08case) {
	quietLogs()
	sp := c.Spec
	sp.Run = fmt.Sprintf("c08-%d", t.Index())
	sig := "ops=" + opSig(&sp)
	var argA, argB interface{}
	results := map[uint64]*exec.Result{}
	// the same earlier results as a worker holds them: (*worker).Compile keeps
	// &Result{Slice, tasks} per invocation, without the bookkeeping Session.run adds on the driver
	workerResults := map[uint64]*exec.Result{}
	if c.WithArg {
		// compile an earlier invocation and hand its Result to the program, as a worker would see it
		base := Spec{Run: sp.Run + "-arg", Nodes: []PNode{{Op: "const", Shards: 3, Rows: 9, Out: []string{"int", "string"}, Salt: 5, Mod: 10}, {Op: "filter", In: []int{0}, P: 3, Salt: 1}}}
		inv0 := exec.VerifMakeInvocation(ProgFunc, base, nil, nil)
		tasks0, slice0, err := inv0.Compile(c.Combiners)
		if err != nil {
			t.Violate(sig+" compile-error", err.Error())
			return
		}
		res := exec.VerifMakeResult(slice0, tasks0, inv0.Index())
		results[inv0.Index()] = res
		workerResults[inv0.Index()] = exec.VerifMakeResult(slice0, tasks0, 0)
		argA = res
	}
	var cacheDir string
	if c.CacheShards > 0 {
		cacheDir, _ = os.MkdirTemp("", "c08-")
		defer os.RemoveAll(cacheDir)
		for i := range sp.Nodes {
			if sp.Nodes[i].Op == "cache" || sp.Nodes[i].Op == "cachepartial" {
				sp.Nodes[i].Path = cacheDir + "/c"
			}
		}
		c08setFiles(cacheDir, c.CacheShards, c.DriverPresent)
		sig = fmt.Sprintf("cache-program driverfiles!=workerfiles:%v", c.DriverPresent != c.WorkerPresent)
	}
	inv := exec.VerifMakeInvocation(ProgFunc, sp, argA, argB)
	tasks, slice, err := inv.Compile(c.Combiners)
	if err != nil {
		// a reused result with a combiner is documented as unsupported
		if strings.Contains(err.Error(), "cannot reuse task") {
			return
		}
		t.Violate(sig+" compile-error", err.Error())
		return
	}
	inv.Freeze(tasks)
	d0 := dumpGraph(tasks, inv.Index())
	if bad := checkGraph(tasks, slice); bad != "" {
		t.Violate("structure:"+strings.SplitN(bad, ":", 2)[0]+argTag(c), bad+" | "+specString(&sp))
		return
	}
	// repeated compilation in the same process
	tasks1, _, err := inv.Compile(c.Combiners)
	if err != nil {
		t.Violate(sig+" recompile-error", err.Error())
		return
	}
	if d1 := dumpGraph(tasks1, inv.Index()); d1 != d0 {
		t.Violate(sig+" repeat-differs", diffLines(d0, d1))
		return
	}
	// what a worker does: gob round trip, substitute references, invoke, compile
	// the executor ships the invocation stored in the tasks (task.Invocation), not the
	// driver's local variable
	shipped := inv
	if tasks[0].Name.InvIndex == inv.Index() {
		shipped = exec.VerifTaskInvocation(tasks[0])
	}
	enc, err := shipped.Encode()
	if err != nil {
		t.Violate(sig+" encode-error", err.Error())
		return
	}
	if c.CacheShards > 0 {
		// the file system changes before the worker compiles
		c08setFiles(cacheDir, c.CacheShards, c.WorkerPresent)
		t.Count("cache_programs", 1)
	}
	winv, err := exec.VerifDecodeInvocation(enc, workerResults)
	if err != nil {
		t.Violate(sig+" decode-error", err.Error())
		return
	}
	tasks2, slice2, err := winv.Compile(c.Combiners)
	if err != nil {
		t.Violate(sig+" worker-compile-error", err.Error())
		return
	}
	if d2 := dumpGraph(tasks2, winv.Index()); d2 != d0 {
		t.Violate(sig+" worker-differs", diffLines(d0, d2))
		return
	}
	if bad := checkGraph(tasks2, slice2); bad != "" {
		t.Violate("worker-structure:"+strings.SplitN(bad, ":", 2)[0]+argTag(c), bad)
		return
	}
	all, _ := allTasks(tasks)
	t.Count("graphs_compiled", 3)
	t.Count("tasks_checked", int64(len(all)))
	f := specFeatures(&sp)
	if f.Shuffle || c.WithArg {
		t.Nontrivial("")
	}
	h := sha256.Sum256([]byte(d0))
	t.Seen("distinct_graphs", fmt.Sprintf("%x", h[:8]))
}

func diffLines(a, b string) string {
	la, lb := strings.Split(a, "\n"), strings.Split(b, "\n")
	for i := 0; i < len(la) && i < len(lb); i++ {
		if la[i] != lb[i] {
			return fmt.Sprintf("first difference at line %d:\n  %s\n  %s", i, la[i], lb[i])
		}
	}
	return fmt.Sprintf("%d vs %d lines", len(la), len(lb))
}

func runC08(r *vf.Runner) {
	rnd := r.Rand("c08")
	n := 300
	if !r.Quick() {
		n = 20000
	}
	opts := genOpts{MaxOps: 7, Sources: []string{"const", "readerfunc", "scanreader"}, Pragmas: true}
	for i := 0; i < n; i++ {
		c := c08case{Combiners: i%2 == 1}
		o := opts
		if i%4 == 0 {
			c.WithArg = true
			o.Sources = []string{"arg", "arg", "const"}
			o.ArgRels = []*rel{{Kinds: []string{"int", "string"}, Prefix: 1, Shards: make([][]row, 3), Ordered: true, Placed: true}}
		}
		c.Spec = genSpec(rnd.Fork(), o)
		r.Case(c, func(t *vf.T) { runC08case(t, c) })
	}
	// Shared producers: a multi-shard slice that cannot be pipelined into (Materialize pragma, or
	// the Result of an earlier invocation) is consumed twice in one invocation, directly and
	// through a shuffle of every width, in both orders. The compiler memoises compiled slices
	// per (slice, partition count); the two consumers must not be handed each other's tasks.
	for _, c := range genC08shared() {
		c := c
		r.Case(c, func(t *vf.T) { runC08case(t, c) })
	}
	// cache operators: the driver's view of the shard files is frozen into the invocation; the
	// worker must compile the same graph whatever files exist when it compiles
	for _, kind := range []string{"cache", "cachepartial"} {
		for shards := 1; shards <= 3; shards++ {
			for dp := 0; dp < 1<<uint(shards); dp++ {
				for wp := 0; wp < 1<<uint(shards); wp++ {
					// the cache operator sits after a shuffle, so that cached shards (dependencies dropped)
					// and computed shards (dependencies wired) compile differently
					sp := Spec{Nodes: []PNode{{Op: "readerfunc", Shards: shards, Rows: 9, Out: []string{"int", "int64"}, Salt: 1, Mod: 5}, {Op: "reduce", In: []int{0}, Fold: "sum"},
						{Op: kind, In: []int{1}}, {Op: "filter", In: []int{2}, P: 3, Salt: 2}}}
					c := c08case{Spec: sp, CacheShards: shards, DriverPresent: dp, WorkerPresent: wp}
					r.Case(c, func(t *vf.T) { runC08case(t, c) })
				}
			}
		}
	}
	// cross-process: a fixed list of programs is compiled by every child; digests are compared
	fixed := r.Rand("fixed-does-not-depend-on-seed")
	_ = fixed
	fr := vf.NewRand(424242)
	for i := 0; i < 12; i++ {
		sp := genSpec(fr.Fork(), opts)
		i := i
		r.CaseAll(map[string]any{"cross": i}, func(t *vf.T) {
			quietLogs()
			sp := sp
			sp.Run = fmt.Sprintf("c08x-%d", i)
			inv := exec.VerifMakeInvocation(ProgFunc, sp, nil, nil)
			tasks, _, err := inv.Compile(i%2 == 0)
			if err != nil {
				t.Violate("cross compile-error", err.Error())
				return
			}
			h := sha256.Sum256([]byte(dumpGraph(tasks, inv.Index())))
			t.Cross(fmt.Sprintf("graph|%d", i), fmt.Sprintf("%x", h[:8]))
			t.Nontrivial("")
		})
	}
}

func genC08shared() (out []c08case) {
	kv := []string{"int", "string"}
	for _, prod := range []string{"materialize", "arg"} {
		for pshards := 1; pshards <= 3; pshards++ {
			if prod == "arg" && pshards != 3 {
				continue // the Result argument built by runC08case has 3 shards
			}
			for _, a := range []string{"none", "filter", "map", "reshard1", "reshard2", "reshard3", "reshuffle"} {
				for _, b := range []string{"reshard1", "reshard2", "reshard3", "reshuffle", "repartition", "cogroup", "fold"} {
					for order := 0; order < 2; order++ {
						var nodes []PNode
						p := 0
						if prod == "arg" {
							nodes = []PNode{{Op: "arg", Arg: 0}}
						} else {
							nodes = []PNode{{Op: "readerfunc", Shards: pshards, Rows: 9, Out: kv, Salt: 7, Mod: 10},
								{Op: "map", In: []int{0}, Out: kv, Src: []int{0, 1}, Salt: 1, Pragma: "materialize"}}
							p = 1
						}
						consumer := func(kind string) int {
							switch kind {
							case "none":
								return p
							case "filter":
								nodes = append(nodes, PNode{Op: "filter", In: []int{p}, P: 3, Salt: 2})
							case "map":
								nodes = append(nodes, PNode{Op: "map", In: []int{p}, Out: kv, Src: []int{0, 1}, Salt: 3})
							case "reshard1", "reshard2", "reshard3":
								nodes = append(nodes, PNode{Op: "reshard", In: []int{p}, Shards: int(kind[7] - '0')})
							case "reshuffle":
								nodes = append(nodes, PNode{Op: "reshuffle", In: []int{p}})
							case "repartition":
								nodes = append(nodes, PNode{Op: "repartition", In: []int{p}, Salt: 4})
							case "cogroup":
								nodes = append(nodes, PNode{Op: "cogroup", In: []int{p}})
							case "fold":
								nodes = append(nodes, PNode{Op: "fold", In: []int{p}, Salt: 5})
							}
							return len(nodes) - 1
						}
						var ia, ib int
						if order == 0 {
							ia = consumer(a)
							ib = consumer(b)
							nodes = append(nodes, PNode{Op: "cogroup", In: []int{ia, ib}})
						} else {
							ib = consumer(b)
							ia = consumer(a)
							nodes = append(nodes, PNode{Op: "cogroup", In: []int{ib, ia}})
						}
						for _, comb := range []bool{false, true} {
							out = append(out, c08case{Spec: Spec{Nodes: nodes}, WithArg: prod == "arg", Combiners: comb})
						}
					}
				}
			}
		}
	}
	return out
}

func argTag(c c08case) string {
	if c.WithArg {
		return " (reused result argument)"
	}
	return ""
}
