package props

import (
	"fmt"
	"reflect"
	"sort"
)

// Reference evaluator for program specs: interprets a spec over rows per shard with the
// documented operator meanings, knowing nothing of frames, tasks or executors. It also
// derives whether the program fixes the order of rows (ordered) and which shard a row is
// in (placed); the oracle compares exactly only what the program fixes.

type rel struct {
	Kinds   []string
	Prefix  int
	Shards  [][]row
	Ordered bool // per-shard sequences are determined by the program
	Placed  bool // the shard of each row is determined by the program (without knowing the hash)
	// Weak is set when the exact multiset is not determined (Head after a shuffle): then
	// Super holds a multiset the result must be a sub-multiset of, and MaxRows bounds its size.
	Weak    bool
	Super   []row
	MaxRows int
	MinRows int
}

func (r *rel) all() []row {
	var out []row
	for _, s := range r.Shards {
		out = append(out, s...)
	}
	return out
}

func (r *rel) nshard() int { return len(r.Shards) }

func (r *rel) count() int {
	n := 0
	for _, s := range r.Shards {
		n += len(s)
	}
	return n
}

func constSplit(rows []row, nshard int) [][]row {
	out := make([][]row, nshard)
	q, rem := len(rows)/nshard, len(rows)%nshard
	off := 0
	for s := 0; s < nshard; s++ {
		c := q
		if s < rem {
			c++
		}
		out[s] = rows[off : off+c]
		off += c
	}
	return out
}

// unplace gathers all rows into an arrangement with n shards whose membership is unknown.
func unplaced(kinds []string, prefix int, rows []row, n int) *rel {
	sh := make([][]row, n)
	sh[0] = rows
	return &rel{Kinds: kinds, Prefix: prefix, Shards: sh}
}

// keyStr is the identity of a key under Go's == on the key columns: +0 and -0 are the same key.
func keyStr(r row, prefix int) string { return keyEqStr(r, prefix) }

func keyEqStr(r row, prefix int) string {
	k := make(row, prefix)
	for i := 0; i < prefix; i++ {
		k[i] = r[i]
		switch x := r[i].(type) {
		case float64:
			if x == 0 {
				k[i] = float64(0)
			}
		case float32:
			if x == 0 {
				k[i] = float32(0)
			}
		}
	}
	return progRowStr(k)
}

// evalSpec evaluates a spec; args are the relations of the Func's Result arguments.
func evalSpec(sp *Spec, args []*rel) (res *rel, all []*rel, err error) {
	rels := make([]*rel, len(sp.Nodes))
	for ni := range sp.Nodes {
		n := &sp.Nodes[ni]
		var in *rel
		if len(n.In) > 0 {
			in = rels[n.In[0]]
		}
		if in != nil && in.Weak && n.Op != "writerfunc" {
			return nil, nil, fmt.Errorf("node %d (%s) consumes a weakly determined input", ni, n.Op)
		}
		switch n.Op {
		case "arg":
			rels[ni] = args[n.Arg]
		case "const", "keys":
			rels[ni] = &rel{Kinds: n.Out, Prefix: 1, Shards: constSplit(sourceRows(n, 0), n.Shards), Ordered: true, Placed: true}
		case "readerfunc":
			sh := make([][]row, n.Shards)
			for s := range sh {
				sh[s] = sourceRows(n, s)
			}
			rels[ni] = &rel{Kinds: n.Out, Prefix: 1, Shards: sh, Ordered: true, Placed: true}
		case "scanreader":
			// "ScanReader shards the file by lines": shard s holds lines s, s+nshard, s+2*nshard, ...
			lines := scanLines(n)
			sh := make([][]row, n.Shards)
			for i, l := range lines {
				sh[i%n.Shards] = append(sh[i%n.Shards], row{l})
			}
			rels[ni] = &rel{Kinds: []string{"string"}, Prefix: 1, Shards: sh, Ordered: true, Placed: true}
		case "map":
			out := &rel{Kinds: n.Out, Prefix: 1, Ordered: in.Ordered, Placed: in.Placed, Shards: make([][]row, in.nshard())}
			for s, rows := range in.Shards {
				for _, r := range rows {
					out.Shards[s] = append(out.Shards[s], evalMap(n, r, 0))
				}
			}
			rels[ni] = out
		case "filter":
			out := &rel{Kinds: in.Kinds, Prefix: in.Prefix, Ordered: in.Ordered, Placed: in.Placed, Shards: make([][]row, in.nshard())}
			for s, rows := range in.Shards {
				for _, r := range rows {
					if keepRow(n, r) {
						out.Shards[s] = append(out.Shards[s], r)
					}
				}
			}
			rels[ni] = out
		case "flatmap":
			out := &rel{Kinds: n.Out, Prefix: 1, Ordered: in.Ordered, Placed: in.Placed, Shards: make([][]row, in.nshard())}
			for s, rows := range in.Shards {
				for _, r := range rows {
					for i, k := 0, fanOut(n, r); i < k; i++ {
						out.Shards[s] = append(out.Shards[s], evalMap(n, r, uint64(i)+1))
					}
				}
			}
			rels[ni] = out
		case "head":
			if in.Ordered {
				out := &rel{Kinds: in.Kinds, Prefix: in.Prefix, Ordered: true, Placed: in.Placed, Shards: make([][]row, in.nshard())}
				for s, rows := range in.Shards {
					k := n.P
					if k > len(rows) {
						k = len(rows)
					}
					if k < 0 {
						k = 0
					}
					out.Shards[s] = rows[:k]
				}
				rels[ni] = out
			} else {
				// which rows come first in a shuffled shard is unspecified
				out := &rel{Kinds: in.Kinds, Prefix: in.Prefix, Weak: true, Super: in.all(), Shards: make([][]row, in.nshard())}
				out.MaxRows = n.P * in.nshard()
				if c := in.count(); c < out.MaxRows {
					out.MaxRows = c
				}
				if n.P > 0 && in.count() > 0 {
					out.MinRows = 1
				}
				if in.Placed {
					out.MinRows, out.MaxRows = 0, 0
					for _, rows := range in.Shards {
						k := n.P
						if k > len(rows) {
							k = len(rows)
						}
						out.MinRows += k
						out.MaxRows += k
					}
				}
				rels[ni] = out
			}
		case "prefixed":
			rels[ni] = &rel{Kinds: in.Kinds, Prefix: n.P, Shards: in.Shards, Ordered: in.Ordered, Placed: in.Placed}
		case "writerfunc":
			c := *in
			rels[ni] = &c
		case "scan":
			rels[ni] = &rel{Kinds: nil, Prefix: in.Prefix, Shards: make([][]row, in.nshard()), Ordered: true, Placed: true}
		case "fold":
			m := map[string]row{}
			var order []string
			for _, r := range in.all() {
				k := keyStr(r, 1)
				v := foldVal(r[1:], n.Salt)
				if cur, ok := m[k]; ok {
					cur[1] = cur[1].(int64) + v
				} else {
					m[k] = row{r[0], v}
					order = append(order, k)
				}
			}
			var rows []row
			for _, k := range order {
				rows = append(rows, m[k])
			}
			rels[ni] = unplaced([]string{in.Kinds[0], "int64"}, 1, rows, in.nshard())
		case "reduce":
			m := map[string]row{}
			var order []string
			last := len(in.Kinds) - 1
			for _, r := range in.all() {
				k := keyStr(r, in.Prefix)
				if cur, ok := m[k]; ok {
					cur[last] = foldStep(n.Fold, cur[last].(int64), r[last].(int64), false)
				} else {
					m[k] = append(row{}, r...)
					order = append(order, k)
				}
			}
			var rows []row
			for _, k := range order {
				rows = append(rows, m[k])
			}
			rels[ni] = unplaced(in.Kinds, in.Prefix, rows, in.nshard())
		case "cogroup":
			ins := make([]*rel, len(n.In))
			shards := 0
			for i, x := range n.In {
				ins[i] = rels[x]
				if ins[i].Weak {
					return nil, nil, fmt.Errorf("cogroup over weak input")
				}
				if ins[i].nshard() > shards {
					shards = ins[i].nshard()
				}
			}
			p := ins[0].Prefix
			kinds := append([]string{}, ins[0].Kinds[:p]...)
			for _, x := range ins {
				for _, k := range x.Kinds[p:] {
					kinds = append(kinds, "[]"+k)
				}
			}
			type grp struct {
				key  row
				vals [][][]any // per input, per non-key column, values
			}
			m := map[string]*grp{}
			var order []string
			for i, x := range ins {
				for _, r := range x.all() {
					k := keyStr(r, p)
					g := m[k]
					if g == nil {
						g = &grp{key: r[:p], vals: make([][][]any, len(ins))}
						for j, y := range ins {
							g.vals[j] = make([][]any, len(y.Kinds)-p)
						}
						m[k] = g
						order = append(order, k)
					}
					for c := p; c < len(r); c++ {
						g.vals[i][c-p] = append(g.vals[i][c-p], r[c])
					}
				}
			}
			var rows []row
			for _, k := range order {
				g := m[k]
				r := append(row{}, g.key...)
				for i, x := range ins {
					for c := range g.vals[i] {
						t := kindType(x.Kinds[p+c])
						sl := reflect.MakeSlice(reflect.SliceOf(t), 0, len(g.vals[i][c]))
						for _, v := range g.vals[i][c] {
							sl = reflect.Append(sl, valOf(t, v))
						}
						r = append(r, sl.Interface())
					}
				}
				rows = append(rows, r)
			}
			rels[ni] = unplaced(kinds, p, rows, shards)
		case "reshuffle":
			rels[ni] = unplaced(in.Kinds, in.Prefix, in.all(), in.nshard())
		case "reshard":
			if n.Shards == in.nshard() {
				c := *in
				rels[ni] = &c
			} else {
				rels[ni] = unplaced(in.Kinds, in.Prefix, in.all(), n.Shards)
			}
		case "repartition":
			out := &rel{Kinds: in.Kinds, Prefix: in.Prefix, Placed: true, Shards: make([][]row, in.nshard())}
			for _, r := range in.all() {
				s := partitionOf(n, r, in.nshard())
				out.Shards[s] = append(out.Shards[s], r)
			}
			rels[ni] = out
		case "cache", "cachepartial":
			c := *in
			rels[ni] = &c
		default:
			return nil, nil, fmt.Errorf("evalSpec: unknown op %s", n.Op)
		}
	}
	return rels[len(rels)-1], rels, nil
}

func sortedStrs(rows []row) []string {
	out := make([]string, len(rows))
	for i, r := range rows {
		out[i] = progRowStr(r)
	}
	sort.Strings(out)
	return out
}

// compareResult compares rows scanned from a Result (shards read sequentially) with the
// reference relation. It returns "" if they agree, else a description.
func compareResult(got []row, want *rel) string {
	if want.Weak {
		if len(got) < want.MinRows || len(got) > want.MaxRows {
			return fmt.Sprintf("got %d rows; between %d and %d expected (Head after a shuffle)", len(got), want.MinRows, want.MaxRows)
		}
		avail := map[string]int{}
		for _, r := range want.Super {
			avail[progRowStr(r)]++
		}
		for _, r := range got {
			k := progRowStr(r)
			if avail[k] == 0 {
				return fmt.Sprintf("row %s is not (or not that often) in the input of Head", k)
			}
			avail[k]--
		}
		return ""
	}
	if want.Ordered && want.Placed {
		w := want.all()
		for i := 0; i < len(got) && i < len(w); i++ {
			if a, b := progRowStr(got[i]), progRowStr(w[i]); a != b {
				return fmt.Sprintf("row %d (shards in order) is %s, reference %s; got %d rows, reference %d", i, a, b, len(got), len(w))
			}
		}
		if len(got) != len(w) {
			return fmt.Sprintf("got %d rows, reference %d (common prefix equal)", len(got), len(w))
		}
		return ""
	}
	return multisetDiff(got, want.all())
}

func multisetDiff(got, want []row) string {
	a, b := sortedStrs(got), sortedStrs(want)
	m := map[string]int{}
	for _, s := range a {
		m[s]++
	}
	for _, s := range b {
		m[s]--
	}
	var extra, missing []string
	for s, c := range m {
		for ; c > 0; c-- {
			extra = append(extra, s)
		}
		for ; c < 0; c++ {
			missing = append(missing, s)
		}
	}
	if len(extra)+len(missing) == 0 {
		return ""
	}
	sort.Strings(extra)
	sort.Strings(missing)
	clip := func(x []string) []string {
		if len(x) > 6 {
			return append(x[:6:6], fmt.Sprintf("…(%d)", len(x)))
		}
		return x
	}
	return fmt.Sprintf("multisets differ: got %d rows, reference %d; unexpected %v; missing %v", len(got), len(want), clip(extra), clip(missing))
}
