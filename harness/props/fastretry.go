package props

import (
	"time"

	"github.com/grailbio/base/retry"
	"github.com/grailbio/bigslice/exec"
)

// fastRetry installs a fast bounded read-retry policy through the verif export.
func fastRetry() {
	exec.VerifSetRetryPolicy(retry.MaxRetries(retry.Backoff(time.Millisecond, 20*time.Millisecond, 2), 5))
}
