package props

import (
	"bytes"
	"context"
	"fmt"
	"reflect"
	"sort"
	"strings"

	"github.com/grailbio/bigslice/frame"
	"github.com/grailbio/bigslice/sliceio"
	"verifharness/internal/vf"
)

// C11 — frame views are transparent. A slice-of-rows model with Go slice view semantics is
// mirrored step by step against frame.Frame; the backing storage of every base frame is a
// set of Go slices the monitor owns, so rows outside a view are inspected without going
// through package frame.

func init() { Registry["C11"] = runC11 }

// mstore is the model of one backing storage.
type mstore struct {
	rows []row
	cols []reflect.Value // the real storage (Go slices with len == cap == len(rows))
}

// mview is the model of a frame: a window over a storage.
type mview struct {
	st            *mstore
	off, len, cap int
	prefix        int
	f             frame.Frame
}

type c11op struct {
	Op   string `json:"op"`
	K    int    `json:"k"`
	K2   int    `json:"k2,omitempty"`
	I    int    `json:"i,omitempty"`
	J    int    `json:"j,omitempty"`
	Seed uint32 `json:"seed,omitempty"`
}

type c11case struct {
	Schema int     `json:"schema"`
	Cap    int     `json:"cap"`
	Off    int     `json:"off"`
	Len    int     `json:"len"`
	Prefix int     `json:"prefix"`
	Small  bool    `json:"small"`
	Data   uint64  `json:"dataseed"`
	Ops    []c11op `json:"ops"`
	// Ragged: the frame is built with frame.Values over columns of unequal capacity (column 0 has
	// room for 3 more rows than the others); all of that room lies in storage the monitor owns
	Ragged bool `json:"ragged,omitempty"`
	// Spare: the columns handed to frame.Values are Go slices that are Spare rows shorter than
	// their capacity (len = Cap-Spare, cap = Cap), as frame.Slices/Values callers with reused
	// buffers have them: the root frame is itself shorter than its storage, and a view of it
	// may be as long as the column values while starting at an offset
	Spare int `json:"spare,omitempty"`
}

type c11state struct {
	t      *vf.T
	ts     []*colType
	views  []*mview
	stores []*mstore
	rnd    *vf.Rand
	small  bool
	sig    string
	maxKey int
}

func (s *c11state) newStore(n int) *mstore {
	rows := make([]row, n)
	for i := range rows {
		rows[i] = genRow(s.ts, s.rnd, s.small)
	}
	_, cols := frameOf(s.ts, rows, 0)
	st := &mstore{rows: cloneRows(rows), cols: cols}
	s.stores = append(s.stores, st)
	return st
}

// adopt registers the storage of a frame that package frame allocated itself (Grow/Append).
func (s *c11state) adopt(g frame.Frame, modelRows []row) *mstore {
	full := g.Slice(0, g.Cap())
	cols := make([]reflect.Value, g.NumOut())
	for c := range cols {
		cols[c] = full.Value(c)
	}
	st := &mstore{rows: modelRows, cols: cols}
	s.stores = append(s.stores, st)
	return st
}

func (s *c11state) fail(kind, format string, args ...any) {
	s.t.Violate(s.sig+" "+kind, fmt.Sprintf(format, args...))
}

// checkAll compares every storage (all rows, inside and outside any view) and every view
// with the model.
func (s *c11state) checkAll(after string) bool {
	ok := true
	for si, st := range s.stores {
		got := readCols(st.cols)
		for i := range st.rows {
			if !rowEq(got[i], st.rows[i], true) {
				s.fail("storage-row-differs", "after %s: storage %d row %d is %s, model says %s", after, si, i, rowStr(got[i]), rowStr(st.rows[i]))
				ok = false
				break
			}
		}
		s.t.Count("storage_rows_checked", int64(len(st.rows)))
	}
	for vi, v := range s.views {
		if v.f.Len() != v.len || v.f.Cap() != v.cap || v.f.Prefix() != v.prefix {
			s.fail("view-shape", "after %s: view %d has len/cap/prefix %d/%d/%d, model %d/%d/%d", after, vi, v.f.Len(), v.f.Cap(), v.f.Prefix(), v.len, v.cap, v.prefix)
			return false
		}
		got := frameRows(v.f)
		for i := 0; i < v.len; i++ {
			if !rowEq(got[i], v.st.rows[v.off+i], true) {
				s.fail("view-row-differs", "after %s: view %d (off %d) row %d reads %s, model %s", after, vi, v.off, i, rowStr(got[i]), rowStr(v.st.rows[v.off+i]))
				ok = false
				break
			}
		}
	}
	return ok
}

func (s *c11state) add(v *mview) {
	if len(s.views) < 4 {
		s.views = append(s.views, v)
	} else {
		s.views[1+s.rnd.Intn(3)] = v
	}
}

// independent builds a frame over fresh storage holding only the view's rows.
func (s *c11state) independent(v *mview) frame.Frame {
	f, _ := frameOf(s.ts, v.st.rows[v.off:v.off+v.len], v.prefix)
	return f
}

func (s *c11state) apply(op c11op) bool {
	if op.K >= len(s.views) {
		return true
	}
	v := s.views[op.K]
	t := s.t
	offview := v.off > 0 || v.len < v.cap
	if offview {
		t.Count("ops_on_offset_views", 1)
	}
	t.Count("op_"+op.Op, 1)
	switch op.Op {
	case "slice":
		i, j := op.I, op.J
		if i > j || j > v.cap {
			return true
		}
		s.add(&mview{st: v.st, off: v.off + i, len: j - i, cap: v.cap - i, prefix: v.prefix, f: v.f.Slice(i, j)})
	case "prefixed":
		p := 1 + op.I%s.maxKey
		s.add(&mview{st: v.st, off: v.off, len: v.len, cap: v.cap, prefix: p, f: v.f.Prefixed(p)})
	case "grow", "ensure":
		var g frame.Frame
		var newlen int
		if op.Op == "grow" {
			g = v.f.Grow(op.I)
			newlen = v.len + op.I
		} else {
			g = v.f.Ensure(op.I)
			newlen = op.I
		}
		if g.Len() != newlen {
			s.fail(op.Op+"-len", "%s(%d) of view len %d cap %d returned len %d", op.Op, op.I, v.len, v.cap, g.Len())
			return false
		}
		if newlen <= v.cap {
			s.add(&mview{st: v.st, off: v.off, len: newlen, cap: v.cap, prefix: v.prefix, f: g})
		} else {
			if g.Cap() < newlen {
				s.fail(op.Op+"-cap", "cap %d < len %d", g.Cap(), newlen)
				return false
			}
			rows := make([]row, g.Cap())
			for i := range rows {
				if i < v.len {
					rows[i] = cloneRow(v.st.rows[v.off+i])
				} else {
					rows[i] = zeroRow(s.ts)
				}
			}
			st := s.adopt(g, rows)
			s.add(&mview{st: st, off: 0, len: newlen, cap: g.Cap(), prefix: v.prefix, f: g})
		}
	case "copy":
		if op.K2 >= len(s.views) {
			return true
		}
		src := s.views[op.K2]
		n := frame.Copy(v.f, src.f)
		want := v.len
		if src.len < want {
			want = src.len
		}
		if n != want {
			s.fail("copy-n", "Copy(dst len %d, src len %d) returned %d", v.len, src.len, n)
			return false
		}
		tmp := cloneRows(src.st.rows[src.off : src.off+want]) // memmove semantics
		for i := 0; i < want; i++ {
			v.st.rows[v.off+i] = tmp[i]
		}
	case "append":
		if op.K2 >= len(s.views) {
			return true
		}
		src := s.views[op.K2]
		g := frame.AppendFrame(v.f, src.f)
		newlen := v.len + src.len
		if g.Len() != newlen {
			s.fail("append-len", "AppendFrame(len %d, len %d) has len %d", v.len, src.len, g.Len())
			return false
		}
		tmp := cloneRows(src.st.rows[src.off : src.off+src.len])
		if newlen <= v.cap {
			for i := range tmp {
				v.st.rows[v.off+v.len+i] = tmp[i]
			}
			s.add(&mview{st: v.st, off: v.off, len: newlen, cap: v.cap, prefix: v.prefix, f: g})
		} else {
			rows := make([]row, g.Cap())
			for i := range rows {
				switch {
				case i < v.len:
					rows[i] = cloneRow(v.st.rows[v.off+i])
				case i < newlen:
					rows[i] = tmp[i-v.len]
				default:
					rows[i] = zeroRow(s.ts)
				}
			}
			st := s.adopt(g, rows)
			s.add(&mview{st: st, off: 0, len: newlen, cap: g.Cap(), prefix: v.prefix, f: g})
		}
	case "swap":
		if v.len == 0 {
			return true
		}
		i, j := op.I%v.len, op.J%v.len
		v.f.Swap(i, j)
		v.st.rows[v.off+i], v.st.rows[v.off+j] = v.st.rows[v.off+j], v.st.rows[v.off+i]
	case "less":
		if v.len == 0 {
			return true
		}
		i, j := op.I%v.len, op.J%v.len
		got := v.f.Less(i, j)
		want := cmpKey(s.ts, v.prefix, v.st.rows[v.off+i], v.st.rows[v.off+j]) < 0
		if got != want {
			s.fail("less", "Less(%d,%d) on view off %d = %v, rows %s %s prefix %d", i, j, v.off, got, rowStr(v.st.rows[v.off+i]), rowStr(v.st.rows[v.off+j]), v.prefix)
			return false
		}
		ind := s.independent(v)
		if ind.Less(i, j) != got {
			s.fail("less-position", "Less differs between view and independent copy")
			return false
		}
	case "hash":
		if v.len == 0 {
			return true
		}
		i := op.I % v.len
		ind, _ := frameOf(s.ts, []row{v.st.rows[v.off+i]}, v.prefix)
		if op.Seed == 0 {
			if a, b := v.f.Hash(i), ind.Hash(0); a != b {
				s.fail("hash-position", "Hash(%d) on view off %d = %#x, on an independent one-row copy %#x, row %s", i, v.off, a, b, rowStr(v.st.rows[v.off+i]))
				return false
			}
		}
		if a, b := v.f.HashWithSeed(i, op.Seed), ind.HashWithSeed(0, op.Seed); a != b {
			s.fail("hash-position", "HashWithSeed(%d,%d) on view off %d = %#x, independent copy %#x", i, op.Seed, v.off, a, b)
			return false
		}
	case "zero":
		v.f.Zero()
		for i := 0; i < v.len; i++ {
			v.st.rows[v.off+i] = zeroRow(s.ts)
		}
	case "read":
		// every read accessor must address exactly the view's rows
		vals := v.f.Values()
		ifs := v.f.Interfaces()
		for c := range s.ts {
			for name, rv := range map[string]reflect.Value{"Value": v.f.Value(c), "Values": vals[c], "Interface": reflect.ValueOf(v.f.Interface(c)), "Interfaces": reflect.ValueOf(ifs[c])} {
				if rv.Len() != v.len {
					s.fail("read-len", "%s(%d) has len %d, view len %d", name, c, rv.Len(), v.len)
					return false
				}
				for i := 0; i < v.len; i++ {
					if !valEq(rv.Index(i).Interface(), v.st.rows[v.off+i][c], true) {
						s.fail("read-value", "%s(%d)[%d] = %v, model %v", name, c, i, normVal(rv.Index(i).Interface()), normVal(v.st.rows[v.off+i][c]))
						return false
					}
				}
			}
			sh := v.f.SliceHeader(c)
			if sh.Len != v.len || sh.Cap != v.cap {
				s.fail("sliceheader", "SliceHeader(%d) len/cap %d/%d, view %d/%d", c, sh.Len, sh.Cap, v.len, v.cap)
				return false
			}
			if v.cap > 0 {
				if want := v.st.cols[c].Index(v.off).UnsafeAddr(); v.off < v.st.cols[c].Len() && sh.Data != want {
					s.fail("sliceheader", "SliceHeader(%d).Data %#x, row %d of storage is at %#x", c, sh.Data, v.off, want)
					return false
				}
			}
			if v.len > 0 {
				i := op.I % v.len
				if p, want := uintptr(v.f.UnsafeIndexPointer(c, i)), v.st.cols[c].Index(v.off+i).UnsafeAddr(); p != want {
					s.fail("indexpointer", "UnsafeIndexPointer(%d,%d) = %#x, want %#x", c, i, p, want)
					return false
				}
			}
		}
	case "codec":
		// encode view K, decode into view K2 (as many rows as fit)
		if op.K2 >= len(s.views) {
			return true
		}
		dst := s.views[op.K2]
		var buf bytes.Buffer
		enc := sliceio.NewEncodingWriter(&buf)
		if err := enc.Write(context.Background(), v.f); err != nil {
			if strings.Contains(err.Error(), "nil element") {
				// gob cannot encode a nil pointer element (reached after Zero on a *int column):
				// a documented gob limitation, not a frame matter.
				return true
			}
			s.fail("encode-error", "encode: %v", err)
			return false
		}
		if v.len > dst.len || dst.st == v.st {
			// The decoder would buffer; that path is exercised by C07. Decode into an independent frame.
			out := frame.Make(v.f, v.len+2, v.len+2)
			n, err := sliceio.NewDecodingReader(&buf).Read(context.Background(), out)
			if err != nil && !(err == sliceio.EOF && v.len == 0) {
				s.fail("decode-error", "decode: %v", err)
				return false
			}
			if n != v.len {
				s.fail("decode-n", "decoded %d rows, wrote %d", n, v.len)
				return false
			}
			got := frameRows(out.Slice(0, n))
			for i := range got {
				if !rowEq(got[i], v.st.rows[v.off+i], false) {
					s.fail("codec-row", "decoded row %d = %s, encoded %s", i, rowStr(got[i]), rowStr(v.st.rows[v.off+i]))
					return false
				}
			}
			return true
		}
		src := cloneRows(v.st.rows[v.off : v.off+v.len])
		n, err := sliceio.NewDecodingReader(&buf).Read(context.Background(), dst.f)
		if err != nil && !(err == sliceio.EOF && v.len == 0) {
			s.fail("decode-error", "decode: %v", err)
			return false
		}
		if n != v.len {
			s.fail("decode-n", "decoded %d rows into view of len %d, wrote %d", n, dst.len, v.len)
			return false
		}
		for i := 0; i < n; i++ {
			// gob does not distinguish nil from empty; adopt what was decoded if equal up to that
			got := cloneRow(frameRows(dst.f.Slice(i, i+1))[0])
			if !rowEq(got, src[i], false) {
				s.fail("codec-row", "decoded row %d into view off %d = %s, encoded %s", i, dst.off, rowStr(got), rowStr(src[i]))
				return false
			}
			dst.st.rows[dst.off+i] = got
		}
	case "sort":
		before := cloneRows(v.st.rows[v.off : v.off+v.len])
		sort.Sort(v.f)
		after := frameRows(v.f)
		for i := 1; i < len(after); i++ {
			if cmpKey(s.ts, v.prefix, after[i-1], after[i]) > 0 {
				s.fail("sort-order", "sort.Sort of view off %d len %d prefix %d: rows %d,%d out of order: %s", v.off, v.len, v.prefix, i-1, i, rowsStr(after))
				return false
			}
		}
		if !sameMultiset(before, after) {
			s.fail("sort-permutation", "sort.Sort of view off %d: %s is not a permutation of %s", v.off, rowsStr(after), rowsStr(before))
			return false
		}
		for i := range after {
			v.st.rows[v.off+i] = after[i]
		}
	}
	return s.checkAll(op.Op)
}

func sameMultiset(a, b []row) bool {
	if len(a) != len(b) {
		return false
	}
	m := map[string]int{}
	for _, r := range a {
		m[rowStr(r)]++
	}
	for _, r := range b {
		m[rowStr(r)]--
	}
	for _, n := range m {
		if n != 0 {
			return false
		}
	}
	return true
}

func runC11case(t *vf.T, c c11case) {
	sc := frameSchemas[c.Schema]
	s := &c11state{t: t, ts: sc.types(), rnd: vf.NewRand(c.Data), small: c.Small, maxKey: sc.MaxKey}
	st := s.newStore(c.Cap)
	fcols := st.cols
	if c.Ragged {
		// three more rows of storage in every column; column 0 is handed to the frame with that
		// room as spare capacity, the others with none: the frame's capacity is the smallest
		// column's, and the rows behind it belong to no view
		st = s.newStore(c.Cap + 3)
		fcols = make([]reflect.Value, len(st.cols))
		for i, col := range st.cols {
			if i == 0 {
				fcols[i] = col.Slice3(0, c.Cap, c.Cap+3)
			} else {
				fcols[i] = col.Slice3(0, c.Cap, c.Cap)
			}
		}
	}
	rootLen := c.Cap
	if c.Spare > 0 && !c.Ragged && c.Spare <= c.Cap {
		rootLen = c.Cap - c.Spare
		fcols = make([]reflect.Value, len(st.cols))
		for i, col := range st.cols {
			fcols[i] = col.Slice3(0, rootLen, c.Cap)
		}
	}
	base := frame.Values(fcols).Prefixed(c.Prefix)
	root := &mview{st: st, off: 0, len: rootLen, cap: c.Cap, prefix: c.Prefix, f: base}
	s.views = append(s.views, root)
	if c.Off != 0 || c.Len != rootLen {
		s.views = append(s.views, &mview{st: st, off: c.Off, len: c.Len, cap: c.Cap - c.Off, prefix: c.Prefix, f: base.Slice(c.Off, c.Off+c.Len)})
		t.Nontrivial("")
	}
	// a second, independent storage to copy from / append
	st2 := s.newStore(3)
	s.views = append(s.views, &mview{st: st2, off: 1, len: 2, cap: 2, prefix: c.Prefix, f: frame.Values(st2.cols).Prefixed(c.Prefix).Slice(1, 3)})
	s.sig = "view"
	if !s.checkAll("construction") {
		return
	}
	for _, op := range c.Ops {
		v := s.views[op.K%len(s.views)]
		op.K %= len(s.views)
		op.K2 %= len(s.views)
		kind := "off0"
		if v.off > 0 {
			kind = "off>0"
		}
		s.sig = fmt.Sprintf("op=%s view=%s", op.Op, kind)
		ok := func() (ok bool) {
			defer func() {
				if e := recover(); e != nil {
					s.fail("panic", "panic in %s on view off=%d len=%d cap=%d prefix=%d: %v", op.Op, v.off, v.len, v.cap, v.prefix, e)
					ok = false
				}
			}()
			return s.apply(op)
		}()
		if !ok {
			return
		}
	}
}

var c11opNames = []string{"slice", "prefixed", "grow", "ensure", "copy", "append", "swap", "less", "hash", "zero", "read", "codec", "sort"}

func runC11(r *vf.Runner) {
	nspare := 0
	run := func(c c11case) {
		r.Case(c, func(t *vf.T) { runC11case(t, c) })
		if len(frameSchemas[c.Schema].Cols) > 1 && (c.Cap <= 3 || !r.Quick()) {
			c.Ragged = true
			r.Case(c, func(t *vf.T) {
				runC11case(t, c)
				t.Count("frames_over_columns_of_unequal_capacity", 1)
			})
		}
		// columns shorter than their capacity: every spare size for small frames (quick: up to 3
		// rows of storage and every 5th larger case; thorough: all)
		c.Ragged = false
		nspare++
		for sp := 1; sp <= c.Cap; sp++ {
			if c.Off+c.Len > c.Cap {
				break
			}
			if len(c.Ops) > 1 && sp != 1+nspare%c.Cap {
				continue // operation sequences: one spare size each
			}
			if r.Quick() && c.Cap > 3 && len(c.Ops) == 1 && (nspare+sp)%5 != 0 {
				continue
			}
			c.Spare = sp
			cc := c
			r.Case(cc, func(t *vf.T) {
				runC11case(t, cc)
				t.Count("frames_over_columns_shorter_than_their_capacity", 1)
				if cc.Off > 0 && cc.Len == cc.Cap-cc.Spare {
					t.Count("offset_views_as_long_as_the_column_values", 1)
				}
			})
		}
	}
	maxCap := 5
	if !r.Quick() {
		maxCap = 9
	}
	// (a) every view (off,len) of frames up to maxCap rows × every single operation with all its
	// parameters × every schema (exhaustive in that space).
	for si, sc := range frameSchemas {
		for cp := 0; cp <= maxCap; cp++ {
			if r.Quick() && cp == 4 {
				continue
			}
			for off := 0; off <= cp; off++ {
				for ln := 0; off+ln <= cp; ln++ {
					var ops []c11op
					k := 1
					if off == 0 && ln == cp {
						k = 0
					}
					vcap := cp - off
					for i := 0; i <= vcap; i++ {
						for j := i; j <= vcap; j++ {
							ops = append(ops, c11op{Op: "slice", K: k, I: i, J: j})
						}
					}
					for i := 0; i < ln; i++ {
						for j := 0; j < ln; j++ {
							ops = append(ops, c11op{Op: "less", K: k, I: i, J: j}, c11op{Op: "swap", K: k, I: i, J: j})
						}
						ops = append(ops, c11op{Op: "hash", K: k, I: i}, c11op{Op: "hash", K: k, I: i, Seed: 0x9acb0442}, c11op{Op: "read", K: k, I: i})
					}
					for n := 0; n <= vcap+2; n++ {
						ops = append(ops, c11op{Op: "grow", K: k, I: n}, c11op{Op: "ensure", K: k, I: n})
					}
					for p := 0; p < len(sc.Cols); p++ {
						ops = append(ops, c11op{Op: "prefixed", K: k, I: p})
					}
					nv := 3
					for k2 := 0; k2 < nv; k2++ {
						ops = append(ops, c11op{Op: "copy", K: k, K2: k2}, c11op{Op: "copy", K: k2, K2: k}, c11op{Op: "append", K: k, K2: k2}, c11op{Op: "append", K: k2, K2: k},
							c11op{Op: "codec", K: k, K2: k2}, c11op{Op: "codec", K: k2, K2: k})
					}
					ops = append(ops, c11op{Op: "read", K: k}, c11op{Op: "zero", K: k}, c11op{Op: "sort", K: k})
					for oi, op := range ops {
						prefix := 1 + (oi+off)%sc.MaxKey
						run(c11case{Schema: si, Cap: cp, Off: off, Len: ln, Prefix: prefix, Small: oi%2 == 0, Data: uint64(si*1000 + cp*100 + off*10 + ln), Ops: []c11op{op}})
					}
				}
			}
		}
	}
	// (b) seeded random operation sequences (length up to 30) over up to four live views.
	rnd := r.Rand("seq")
	nseq := 1500
	if !r.Quick() {
		nseq = 60000
	}
	for n := 0; n < nseq; n++ {
		si := rnd.Intn(len(frameSchemas))
		sc := frameSchemas[si]
		cp := 1 + rnd.Intn(12)
		off := rnd.Intn(cp + 1)
		ln := rnd.Intn(cp - off + 1)
		c := c11case{Schema: si, Cap: cp, Off: off, Len: ln, Prefix: 1 + rnd.Intn(sc.MaxKey), Small: rnd.Bool(), Data: rnd.Uint64()}
		nops := 2 + rnd.Intn(29)
		for i := 0; i < nops; i++ {
			c.Ops = append(c.Ops, c11op{Op: c11opNames[rnd.Intn(len(c11opNames))], K: rnd.Intn(4), K2: rnd.Intn(4), I: rnd.Intn(14), J: rnd.Intn(14), Seed: uint32(rnd.Intn(3)) * 0x1234567})
		}
		run(c)
	}
}
