package props

import (
	"fmt"
	"strings"
	"sync/atomic"
	"time"

	"github.com/grailbio/bigslice"
	"verifharness/internal/vf"
)

// C06 — user errors and panics surface as errors from Run, on every executor.

func init() { Registry["C06"] = runC06 }

type c06case struct {
	Conf    sessConf `json:"conf"`
	Site    string   `json:"site"`
	Mode    string   `json:"mode"` // error kinderror temporary panic badpartition
	Persist bool     `json:"persistent"`
	Pos     string   `json:"position"` // first vector-1 vector vector+1 last
	// Shape: what consumes the output of the task in which the function fails. "" - the result
	// itself; "shuffle" - a Reshuffle (the task writes several partitions, no combiner);
	// "combine" - a Map to (key, int64) and a Reduce (the task writes through a combiner).
	Shape string `json:"shape,omitempty"`
}

// c06program returns the program of a call site and the index of the node that fails.
func c06program(site, shape string) (Spec, int) {
	sp, node := c06base(site)
	last := len(sp.Nodes) - 1
	switch shape {
	case "shuffle":
		sp.Nodes = append(sp.Nodes, PNode{Op: "reshuffle", In: []int{last}})
	case "combine":
		sp.Nodes = append(sp.Nodes, PNode{Op: "map", In: []int{last}, Out: []string{"int", "int64"}, Src: []int{-1, -1}, Salt: 77, Mod: 12},
			PNode{Op: "reduce", In: []int{last + 1}, Fold: "sum"})
	}
	return sp, node
}

func c06base(site string) (Spec, int) {
	src := PNode{Op: "const", Shards: 2, Rows: 300, Out: []string{"int", "string"}, Salt: 21, Mod: 40}
	switch site {
	case "readerfunc":
		return Spec{Nodes: []PNode{{Op: "readerfunc", Shards: 2, Rows: 300, Out: []string{"int", "string"}, Salt: 3, Mod: 40, Chunks: []int{2}}, {Op: "filter", In: []int{0}, P: 3, Salt: 1}}}, 0
	case "scanreader":
		return Spec{Nodes: []PNode{{Op: "scanreader", Shards: 2, Rows: 40, Salt: 3, Mod: 5}}}, 0
	case "writerfunc":
		src.Rows = 700
		return Spec{Nodes: []PNode{src, {Op: "writerfunc", In: []int{0}}}}, 1
	case "map":
		return Spec{Nodes: []PNode{src, {Op: "map", In: []int{0}, Out: []string{"int", "int64"}, Src: []int{0, -1}, Salt: 5, Mod: 9}}}, 1
	case "filter":
		return Spec{Nodes: []PNode{src, {Op: "filter", In: []int{0}, P: 3, Salt: 5}}}, 1
	case "flatmap":
		return Spec{Nodes: []PNode{src, {Op: "flatmap", In: []int{0}, Out: []string{"int"}, Src: []int{-1}, P: 3, Salt: 5, Mod: 9}}}, 1
	case "fold":
		return Spec{Nodes: []PNode{src, {Op: "fold", In: []int{0}, Salt: 5}}}, 1
	case "reduce":
		// few keys, many rows: the combiner runs in the producers' tables and in the consumers' merge
		return Spec{Nodes: []PNode{src, {Op: "map", In: []int{0}, Out: []string{"int", "int64"}, Src: []int{-1, -1}, Salt: 5, Mod: 12}, {Op: "reduce", In: []int{1}, Fold: "sum"}}}, 2
	case "reducebuf":
		// one producer shard whose keys cycle 0,1,2,3,4: the task's own table (8 slots, flushed
		// when more than half full) never sees a key twice between two flushes, so every call of
		// the combiner in the producer happens in the per-partition combine buffer that the flush
		// combines into
		var vals []uint64
		for i := 0; i < 60; i++ {
			vals = append(vals, uint64(i%5))
		}
		return Spec{Nodes: []PNode{{Op: "keys", Shards: 1, Out: []string{"int", "int64"}, Vals: vals}, {Op: "reduce", In: []int{0}, Fold: "sum"}}}, 1
	case "repartition":
		return Spec{Nodes: []PNode{src, {Op: "repartition", In: []int{0}, Salt: 5}}}, 1
	case "scan":
		return Spec{Nodes: []PNode{src, {Op: "scan", In: []int{0}}}}, 1
	}
	panic(site)
}

func callsOf(run string, node int) int64 {
	p := probeFor(run)
	return atomic.LoadInt64(p.counter(p.calls, node))
}

func runC06case(t *vf.T, pool *sessionPool, c c06case) {
	sp, node := c06program(c.Site, c.Shape)
	ls := pool.get(c.Conf)
	ex := c.Conf.Kind
	if c.Conf.Combiners {
		ex += "+machinecombiners"
	}
	sig := fmt.Sprintf("site=%s mode=%s persistent=%v exec=%s", c.Site, c.Mode, c.Persist, ex)
	if c.Shape != "" {
		sig += " consumer=" + c.Shape
	}
	// failure-free dry run on the same session: reference rows and the number of calls
	dry := sp
	dry.Run = fmt.Sprintf("c06-%d-dry", t.Index())
	defer probes.Delete(dry.Run)
	want, _, err := evalSpec(&dry, nil)
	if err != nil {
		return
	}
	d := runSpec(ls, dry, [2]bigslice.Slice{}, true, 120*time.Second)
	if d.TimedOut || d.RunErr != nil || d.ScanErr != nil || d.Panic != nil {
		t.Inconclusive(fmt.Sprintf("failure-free dry run did not succeed: %v %v %v timeout=%v", d.RunErr, d.ScanErr, d.Panic, d.TimedOut))
		pool.drop(c.Conf)
		return
	}
	d.Res.Discard(bgctx)
	total := int(callsOf(dry.Run, node))
	if total == 0 {
		t.Inconclusive("the user function was never called in the dry run")
		return
	}
	at := 0
	switch c.Pos {
	case "vector-1":
		at = 126
	case "vector":
		at = 127
	case "vector+1":
		at = 128
	case "last":
		at = total - 1
	default:
		// "call-k": the k-th invocation, for sites whose invocations happen in different places
		// (a reduce combiner runs in the task's own table, in the shared per-partition buffer, in
		// the final flush and in the consumer's merge): small k enumerate them
		if strings.HasPrefix(c.Pos, "call-") {
			fmt.Sscanf(c.Pos, "call-%d", &at)
		}
	}
	if at >= total {
		at = total / 2
	}
	f := sp
	f.Run = fmt.Sprintf("c06-%d", t.Index())
	defer probes.Delete(f.Run)
	msg := fmt.Sprintf("verif-user-failure-%d", t.Index())
	f.Fail = &FailSpec{Node: node, Mode: c.Mode, AtCall: at, Persist: c.Persist, Msg: msg}
	runRPCs0 := 0
	if ls.IP != nil {
		runRPCs0 = ls.IP.count("Worker.Run")
	}
	out := runSpec(ls, f, [2]bigslice.Slice{}, true, 180*time.Second)
	calls := int(callsOf(f.Run, node))
	if out.TimedOut {
		// Decide on logical quantities: if the failing function was invoked far more often than the
		// documented bound allows (5 consecutive losses per task) while Run still has not returned,
		// the retries are unbounded; otherwise the watchdog firing is inconclusive.
		if calls > 8*total+50 {
			t.Violate(sig+" unbounded-retries", fmt.Sprintf("Run still running after 180 s and %d invocations of the failing function (a failure-free run makes %d)", calls, total))
		} else if ls.IP != nil && ls.IP.count("Worker.Run")-runRPCs0 > 60 {
			t.Violate(sig+" unbounded-retries", fmt.Sprintf("Run still running after 180 s and %d Worker.Run RPCs for a program of a handful of tasks", ls.IP.count("Worker.Run")-runRPCs0))
		} else if out.Stalled {
			t.Violate(sig+" hang", "Run did not return within 180 s and no RPC other than keepalive/stats polling started or finished during the last 120 s (goroutine dump kept)")
		} else {
			t.Inconclusive("watchdog: Run did not return within 180 s for " + sig + " (" + out.Quiet + ")")
		}
		pool.drop(c.Conf)
		return
	}
	if out.Panic != nil {
		t.Violate(sig+" panic-escaped:"+out.PanicAt, fmt.Sprintf("the user failure escaped Run as a panic: %v", out.Panic))
		pool.drop(c.Conf)
		return
	}
	reached := calls > at
	if !reached {
		t.Count("failure_position_not_reached", 1)
	}
	runErr := out.RunErr
	switch {
	case c.Persist && reached:
		if runErr == nil {
			t.Violate(sig+" run-succeeded", fmt.Sprintf("the function failed persistently from call %d on (%d calls made) but Run returned nil (scan error: %v, %d rows)", at, calls, out.ScanErr, len(out.Rows)))
			return
		}
		// the property requires the message for reader and writer errors and for every panic
		needMsg := c.Mode == "panic" || ((c.Mode == "error" || c.Mode == "kinderror") && (c.Site == "readerfunc" || c.Site == "writerfunc" || c.Site == "scanreader"))
		if needMsg && !strings.Contains(runErr.Error(), msg) {
			t.Violate(sig+" message-lost", fmt.Sprintf("Run failed but the error does not carry the user's message %q: %.300s", msg, runErr.Error()))
			return
		}
		t.Count("persistent_failures_reported", 1)
	case !c.Persist && c.Mode == "temporary" && reached:
		if runErr != nil || out.ScanErr != nil {
			t.Violate(sig+" one-shot-temporary-failed-the-run", fmt.Sprintf("a temporary failure that went away on retry failed the run: %v %v", runErr, out.ScanErr))
			return
		}
		t.Count("one_shot_failures_recovered", 1)
	}
	if runErr == nil && out.ScanErr == nil {
		// whatever happened, a successful run must not deliver a partial result
		if dd := compareResult(out.Rows, want); dd != "" {
			t.Violate(sig+" partial-result", "Run succeeded but the rows are wrong: "+dd)
			return
		}
	}
	if out.Res != nil {
		out.Res.Discard(bgctx)
	}
	// bounded re-invocation: at most maxConsecutiveLost(5)+1 attempts of every task
	if calls > 8*total+50 {
		t.Violate(sig+" unbounded-retries", fmt.Sprintf("the failing function was invoked %d times; a failure-free run makes %d calls", calls, total))
		return
	}
	t.Max("max_calls_ratio_x100", int64(calls*100/total))
	// the session must remain usable
	after := Spec{Run: fmt.Sprintf("c06-%d-after", t.Index()), Nodes: []PNode{{Op: "const", Shards: 2, Rows: 5, Out: []string{"int"}, Salt: 1}, {Op: "map", In: []int{0}, Out: []string{"int", "int"}, Src: []int{0, -1}, Salt: 2, Mod: 3}}}
	defer probes.Delete(after.Run)
	wa, _, _ := evalSpec(&after, nil)
	a := runSpec(ls, after, [2]bigslice.Slice{}, true, 120*time.Second)
	switch {
	case a.TimedOut && a.Stalled:
		t.Violate(sig+" session-unusable", "a trivial run after the failure did not return within 120 s and nothing in the session can make progress any more ("+a.Quiet+")")
		dumpGoroutines("c06-after-" + f.Run)
		pool.drop(c.Conf)
		return
	case a.TimedOut:
		t.Inconclusive("watchdog: a trivial run after the failure did not return within 120 s (" + a.Quiet + ")")
		pool.drop(c.Conf)
		return
	case a.RunErr != nil || a.ScanErr != nil || a.Panic != nil:
		t.Violate(sig+" session-unusable", fmt.Sprintf("a trivial run after the failure failed: %v %v %v", a.RunErr, a.ScanErr, a.Panic))
		pool.drop(c.Conf)
		return
	}
	if dd := compareResult(a.Rows, wa); dd != "" {
		t.Violate(sig+" session-unusable", "trivial run after the failure: "+dd)
		return
	}
	a.Res.Discard(bgctx)
	t.Count("sessions_reused_after_failure", 1)
	t.Seen("site_mode_matrix", c.Site+"/"+c.Mode+"/"+ex+"/"+c.Shape)
	if reached {
		t.Nontrivial("")
	}
}

func runC06(r *vf.Runner) {
	pool := &sessionPool{}
	defer pool.closeAll()
	sites := []string{"readerfunc", "scanreader", "writerfunc", "map", "filter", "flatmap", "fold", "reduce", "repartition", "scan"}
	modesOf := func(site string) []string {
		switch site {
		case "readerfunc", "writerfunc":
			return []string{"error", "kinderror", "temporary", "panic"}
		case "scan":
			return []string{"error", "temporary", "panic"}
		case "scanreader":
			return []string{"error", "temporary"}
		case "repartition":
			return []string{"panic", "badpartition"}
		default:
			return []string{"panic"}
		}
	}
	// the reduce combiner at its first 40 invocations (quick: a Fibonacci-spaced sample), on the
	// distributed executor with and without machine combiners: the call sites of the combiner
	// inside a producer task differ in how they hold the shared combine buffer
	defer func() {
		ks := []int{0, 1, 2, 3, 5, 8, 13, 21, 34}
		if !r.Quick() {
			ks = nil
			for k := 0; k < 40; k++ {
				ks = append(ks, k)
			}
		}
		for _, k := range ks {
			for _, conf := range []sessConf{{Kind: "bigmachine", P: 4, MachProcs: 2, MaxLoad: 0.95}, {Kind: "bigmachine", P: 4, MachProcs: 2, MaxLoad: 0.95, Combiners: true}, localP4} {
				if r.Quick() && conf.Kind == "local" && k%2 == 1 {
					continue
				}
				c := c06case{Conf: conf, Site: "reduce", Mode: "panic", Persist: true, Pos: fmt.Sprintf("call-%d", k)}
				r.Case(c, func(t *vf.T) { runC06case(t, pool, c) })
				if k < 12 {
					c := c06case{Conf: conf, Site: "reducebuf", Mode: "panic", Persist: k%2 == 0, Pos: fmt.Sprintf("call-%d", k)}
					r.Case(c, func(t *vf.T) { runC06case(t, pool, c) })
				}
			}
		}
	}()
	confs := []sessConf{localP1, localP4, {Kind: "bigmachine", P: 4, MachProcs: 2, MaxLoad: 0.95}, {Kind: "bigmachine", P: 4, MachProcs: 2, MaxLoad: 0.95, Combiners: true}}
	positions := []string{"first", "vector-1", "vector", "vector+1", "last"}
	i := 0
	for _, site := range sites {
		for _, mode := range modesOf(site) {
			for _, persist := range []bool{true, false} {
				for pi, pos := range positions {
					for ci, conf := range confs {
						i++
						if r.Quick() {
							// every call site x mode x persistence at one position per executor
							if (pi+ci+len(site)+len(mode))%5 != 0 {
								continue
							}
						}
						c := c06case{Conf: conf, Site: site, Mode: mode, Persist: persist, Pos: pos}
						r.Case(c, func(t *vf.T) { runC06case(t, pool, c) })
						// the same failure in a task whose output is shuffled, without and with a combiner
						switch site {
						case "readerfunc", "scanreader", "writerfunc", "map", "filter", "flatmap":
							for si, shape := range []string{"shuffle", "combine"} {
								if r.Quick() && (pi+ci+si)%2 != 0 {
									continue
								}
								c := c
								c.Shape = shape
								r.Case(c, func(t *vf.T) { runC06case(t, pool, c) })
							}
						}
					}
				}
			}
		}
	}
}
