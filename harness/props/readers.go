package props

import (
	"context"
	"errors"
	"fmt"
	"reflect"

	"github.com/grailbio/bigslice/frame"
	"github.com/grailbio/bigslice/sliceio"
	"verifharness/internal/vf"
)

// Chunking and destination adversaries (DESIGN §3.2).

// chunk is one scripted call result of a chunkedReader.
type chunk struct {
	N   int  `json:"n"`             // rows to deliver (clipped to what is left and to the destination)
	EOF bool `json:"eof,omitempty"` // deliver EOF together with the last rows (n>0 with EOF)
	Err bool `json:"err,omitempty"` // fail this call with errInjected (with N > 0: together with up to N rows; later calls return EOF)
}

var errInjected = errors.New("verif: injected reader error")

// chunkedReader replays fixed rows following a script of call results. The script cycles;
// when the rows run out it returns EOF (together with the last rows if the script says so).
type chunkedReader struct {
	ts     []*colType
	rows   []row
	script []chunk
	call   int
	calls  int
	closed bool
	done   bool
	erred  bool // the scripted error was actually delivered
}

func newChunkedReader(ts []*colType, rows []row, script []chunk) *chunkedReader {
	if len(script) == 0 {
		script = []chunk{{N: 1 << 30}}
	}
	return &chunkedReader{ts: ts, rows: rows, script: script}
}

func (c *chunkedReader) Read(ctx context.Context, out frame.Frame) (int, error) {
	c.calls++
	if c.done {
		return 0, sliceio.EOF
	}
	ch := c.script[c.call%len(c.script)]
	c.call++
	if ch.Err && ch.N <= 0 {
		c.done = true
		c.erred = true
		return 0, errInjected
	}
	n := ch.N
	if n > len(c.rows) {
		n = len(c.rows)
	}
	if n > out.Len() {
		n = out.Len()
	}
	for i := 0; i < n; i++ {
		for col := range c.ts {
			setVal(out.Index(col, i), cloneVal(c.rows[i][col]))
		}
	}
	c.rows = c.rows[n:]
	if ch.Err {
		// a failing read that still delivers rows (as a Head reader over a failing input does); the
		// stream then reports EOF, not the error again
		c.done = true
		c.erred = true
		return n, errInjected
	}
	if len(c.rows) == 0 && (ch.EOF || (n == 0 && ch.N > 0)) {
		c.done = true
		return n, sliceio.EOF
	}
	return n, nil
}

func (c *chunkedReader) Close() error { c.closed = true; return nil }

// canaryRows returns n recognisable rows.
func canaryRows(ts []*colType, n int, r *vf.Rand) []row {
	rows := make([]row, n)
	for i := range rows {
		rows[i] = genRow(ts, r, false)
	}
	return rows
}

type delivered struct {
	f    frame.Frame
	cols []reflect.Value
	n    int
	copy []row
	can  []row
}

// driveResult is what driveReader observed.
type driveResult struct {
	rows  []row
	err   error // nil: clean EOF
	calls int
	bad   string // non-empty: contract violation (kind)
	what  string
}

// driveReader reads r to the end with a scripted sequence of destination lengths (cycled)
// into fresh frames pre-filled with canary rows, keeps every delivered frame, and checks on
// every call 0<=n<=len(dst), canaries beyond n intact, and at the end that no earlier
// delivered frame changed. maxCalls bounds the run (a reader that never ends is reported).
func driveReader(ts []*colType, r sliceio.Reader, sizes []int, rnd *vf.Rand, maxCalls int) (res driveResult) {
	return driveReaderOpt(ts, r, sizes, rnd, maxCalls, true)
}

func driveReaderOpt(ts []*colType, r sliceio.Reader, sizes []int, rnd *vf.Rand, maxCalls int, canary bool) (res driveResult) {
	if len(sizes) == 0 {
		sizes = []int{128}
	}
	var kept []*delivered
	ctx := context.Background()
	for call := 0; ; call++ {
		if call >= maxCalls {
			res.bad, res.what = "no-end", fmt.Sprintf("no EOF after %d calls (%d rows so far)", call, len(res.rows))
			return
		}
		sz := sizes[call%len(sizes)]
		can := canaryRows(ts, sz, rnd)
		f, cols := frameOf(ts, can, 0)
		n, err := r.Read(ctx, f)
		res.calls++
		if n < 0 || n > sz {
			res.bad, res.what = "n-out-of-range", fmt.Sprintf("call %d: Read returned n=%d for a destination of %d rows", call, n, sz)
			return
		}
		got := readCols(cols)
		// The contents of the destination after a failed call are unspecified (as for io.Reader);
		// the canaries are checked for calls that succeed or end the stream.
		for i := n; canary && i < sz && (err == nil || err == sliceio.EOF); i++ {
			if !rowEq(got[i], can[i], true) {
				res.bad, res.what = "wrote-beyond-n", fmt.Sprintf("call %d: Read returned n=%d but row %d of the destination changed from %s to %s", call, n, i, rowStr(can[i]), rowStr(got[i]))
				return
			}
		}
		if err != nil && err != sliceio.EOF {
			// rows returned together with a non-EOF error are not part of the stream
			res.err = err
			break
		}
		kept = append(kept, &delivered{f: f, cols: cols, n: n, copy: got[:n]})
		res.rows = append(res.rows, got[:n]...)
		if err == sliceio.EOF {
			break
		}
	}
	for k, d := range kept {
		now := readCols(d.cols)
		for i := 0; i < d.n; i++ {
			if !rowEq(now[i], d.copy[i], true) {
				res.bad, res.what = "earlier-frame-altered", fmt.Sprintf("frame delivered by call %d: row %d was %s at delivery and is %s after the stream ended", k, i, rowStr(d.copy[i]), rowStr(now[i]))
				return
			}
		}
	}
	return
}

// rowsDiff describes the first difference between two row sequences ("" if equal).
func rowsDiff(got, want []row, strict bool) string {
	for i := 0; i < len(got) && i < len(want); i++ {
		if !rowEq(got[i], want[i], strict) {
			return fmt.Sprintf("row %d is %s, want %s (got %d rows, want %d)", i, rowStr(got[i]), rowStr(want[i]), len(got), len(want))
		}
	}
	if len(got) != len(want) {
		return fmt.Sprintf("got %d rows, want %d; got=%s want=%s", len(got), len(want), rowsStr(got), rowsStr(want))
	}
	return ""
}

var destScripts = [][]int{{1}, {2}, {3}, {1, 5, 2}, {7}, {127}, {128}, {129}, {300}, {1, 128, 3}}
