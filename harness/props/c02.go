package props

import (
	"fmt"
	"strings"
	"sync/atomic"
	"time"

	"github.com/grailbio/bigslice"
	"verifharness/internal/vf"
)

// C02 — machine loss yields the correct rows or an error, never wrong rows or a hang.

func init() { Registry["C02"] = runC02 }

type c02case struct {
	Program string     `json:"program"`
	Kills   []ipAction `json:"kills"`
	Reuse   bool       `json:"reuse"` // the program consumes the Result of an earlier run (whose machine may be killed)
}

func c02program(name string) (base *Spec, sp Spec) {
	src := PNode{Op: "readerfunc", Shards: 3, Rows: 150, Out: []string{"int", "string"}, Salt: 31, Mod: 25, Chunks: []int{40}}
	kv := PNode{Op: "map", In: []int{0}, Out: []string{"int", "int64"}, Src: []int{0, -1}, Salt: 2, Mod: 9}
	switch name {
	case "map-only":
		return nil, Spec{Nodes: []PNode{src, {Op: "map", In: []int{0}, Out: []string{"int", "string"}, Src: []int{0, 1}}, {Op: "filter", In: []int{1}, P: 4, Salt: 1}}}
	case "reduce":
		return nil, Spec{Nodes: []PNode{src, kv, {Op: "reduce", In: []int{1}, Fold: "sum"}}}
	case "cogroup":
		return nil, Spec{Nodes: []PNode{src, kv, {Op: "cogroup", In: []int{0, 1}}}}
	case "fold":
		return nil, Spec{Nodes: []PNode{src, {Op: "fold", In: []int{0}, Salt: 5}}}
	case "two-stage":
		return nil, Spec{Nodes: []PNode{src, kv, {Op: "reduce", In: []int{1}, Fold: "sum"}, {Op: "map", In: []int{2}, Out: []string{"int64", "int64"}, Src: []int{1, -1}, Salt: 3, Mod: 4}, {Op: "reduce", In: []int{3}, Fold: "max"}}}
	case "reused-result":
		b := Spec{Nodes: []PNode{src, kv}}
		return &b, Spec{Nodes: []PNode{{Op: "arg", Arg: 0}, {Op: "reduce", In: []int{0}, Fold: "sum"}}}
	}
	panic(name)
}

var c02conf = sessConf{Kind: "bigmachine", P: 4, MachProcs: 2, MaxLoad: 0.95, Keepalive: 50}

func runC02case(t *vf.T, c c02case) {
	base, sp := c02program(c.Program)
	run := fmt.Sprintf("c02-%d", t.Index())
	sp.Run = run
	defer probes.Delete(run)
	ls := startSession(c02conf, c.Kills...)
	defer ls.Close()
	var args [2]bigslice.Slice
	var argRels []*rel
	if base != nil {
		b := *base
		b.Run = run + "-base"
		defer probes.Delete(b.Run)
		w0, _, _ := evalSpec(&b, nil)
		o := runSpec(ls, b, [2]bigslice.Slice{}, false, 120*time.Second)
		if o.TimedOut {
			t.Inconclusive("watchdog in the base run")
			return
		}
		if o.RunErr != nil {
			// the base run itself may be hit by the kill: an error is an acceptable outcome
			t.Count("runs_reporting_error", 1)
			t.Seen("errors", errShort(o.RunErr))
			t.Nontrivial("")
			return
		}
		args[0] = o.Res
		argRels = []*rel{w0, w0}
	}
	want, _, err := evalSpec(&sp, argRels)
	if err != nil {
		t.Inconclusive(err.Error())
		return
	}
	out := runSpec(ls, sp, args, true, 150*time.Second)
	fired := 0
	kills := 0
	if ls.IP != nil {
		fired = int(ls.IP.fired)
		ls.IP.mu.Lock()
		kills = len(ls.IP.killed)
		ls.IP.mu.Unlock()
	}
	sig := "program=" + c.Program
	if len(c.Kills) > 0 {
		sig += fmt.Sprintf(" kill=%s/%s", c.Kills[0].Method, c.Kills[0].When)
		if c.Kills[0].What == "kill-target-hold" {
			sig += "/reply-held"
		}
		if c.Kills[0].What == "kill-target-midbody" {
			sig += "/mid-body"
		}
		if c.Kills[0].What == "kill-target-midbody-hold" {
			sig += "/mid-body-held"
		}
	}
	switch {
	case out.TimedOut:
		if out.Stalled {
			t.Violate(sig+" hang", fmt.Sprintf("the run did not return within 150 s after killing %d machine(s), and no RPC started or finished for 100 s (%s)", kills, out.Quiet))
		} else {
			t.Inconclusive("watchdog: run still making RPCs after 150 s (" + out.Quiet + ")")
		}
		return
	case out.Panic != nil:
		t.Violate(sig+" panic:"+out.PanicAt, fmt.Sprint(out.Panic))
		return
	case out.RunErr != nil || out.ScanErr != nil:
		e := out.RunErr
		if e == nil {
			e = out.ScanErr
		}
		t.Count("runs_reporting_error", 1)
		t.Seen("errors", errShort(e))
		// Machines the executor itself declared lost: more than were killed means that the
		// keepalive of a live machine timed out (a starved host). That is a machine loss like any
		// other ("at any moments"): the run may report an error, but the stricter expectations
		// below, which assume that the scripted kill was the only loss, do not apply.
		if ls.lossesNotCausedByMonitor(kills, true) {
			t.Count("runs_with_machine_losses_not_caused_by_the_monitor", 1)
			t.Nontrivial("")
			return
		}
		if kills == 0 {
			t.Violate(sig+" error-without-loss", fmt.Sprintf("no machine was killed (the kill point was never reached) and the executor recorded no machine loss, but the run failed: %v | kill actions fired: %d | library log: %s", e, fired, logTail(14)))
			return
		}
		if len(c.Kills) == 1 && kills == 1 && ls.IP != nil && atomic.LoadInt64(&ls.IP.held) == 1 {
			// The executor had recorded the loss of the machine before the reply of the completed
			// task was delivered; nothing else failed and replacements can be started: the
			// lost output must be recomputed, and a give-up is not an acceptable outcome.
			t.Violate(sig+" error-after-recorded-single-loss err="+c02errClass(e), fmt.Sprintf("one machine was lost and the executor had recorded the loss before the held reply (or the rest of the cut reply) was delivered; replacements were available, but the run failed: %.400s | library log: %s", e.Error(), logTail(12)))
			return
		}
		if len(c.Kills) == 1 && !isGiveUp(e) && out.RunErr != nil {
			// replacements can be started and losses have stopped: only the documented give-up is acceptable
			t.Violate(sig+" unexpected-error-after-single-loss", fmt.Sprintf("one machine was lost, replacements were available, but Run failed with an error that is not the documented give-up: %.400s", e.Error()))
			return
		}
	default:
		if d := compareResult(out.Rows, want); d != "" {
			t.Violate(sig+" wrong-rows-after-loss", fmt.Sprintf("Run and scan succeeded after killing %d machine(s) but the rows differ from a failure-free run: %s", kills, d))
			return
		}
		t.Count("runs_correct", 1)
		if kills > 0 {
			t.Count("recoveries", 1)
		}
	}
	if ls.IP != nil {
		t.Count("replies_delivered_after_their_machine_was_seen_stopped", atomic.LoadInt64(&ls.IP.held))
		t.Count("read_replies_cut_mid_body", atomic.LoadInt64(&ls.IP.midbody))
		ls.IP.mu.Lock()
		t.Count("bytes_of_read_replies_cut_mid_body", ls.IP.midbodyBytes)
		ls.IP.mu.Unlock()
	}
	t.Count("kill_actions_fired", int64(fired))
	t.Count("machines_killed", int64(kills))
	if ls.IP != nil {
		t.Count("worker_run_rpcs", int64(ls.IP.count("Worker.Run")))
		t.Max("max_worker_run_rpcs_in_a_case", int64(ls.IP.count("Worker.Run")))
	}
	if kills > 0 {
		for _, k := range c.Kills {
			t.Seen("crash_points", fmt.Sprintf("%s/%s/%d", k.Method, k.When, k.Ordinal))
			t.Seen("crash_point_kinds", k.Method+"/"+k.When)
		}
		t.Nontrivial("")
	}
}

// c02errClass names the kind of an error for signatures.
func c02errClass(e error) string {
	s := e.Error()
	if strings.Contains(s, "gob: ") {
		return "gob-decode"
	}
	for _, k := range []string{"integrity error", "unexpected EOF", "consecutive", "too many tries", "invalid invocation", "resource unavailable", "context"} {
		if strings.Contains(s, k) {
			return strings.ReplaceAll(k, " ", "-")
		}
	}
	return "other"
}

func errShort(e error) string {
	s := e.Error()
	for _, k := range []string{"consecutive", "too many tries", "gave up", "connection refused", "keepalive", "context", "EOF", "not exist", "unavailable"} {
		if strings.Contains(s, k) {
			return k
		}
	}
	if len(s) > 50 {
		s = s[:50]
	}
	return s
}

func runC02(r *vf.Runner) {
	programs := []string{"map-only", "reduce", "cogroup", "fold", "two-stage", "reused-result"}
	// upper bounds of the per-method call ordinals seen in failure-free traces of these programs
	// (ordinals that a run does not reach never fire; the run is then a failure-free one)
	bounds := map[string]int{"Worker.Compile": 3, "Worker.Run": 14, "Worker.Stat": 14, "Worker.Read": 22, "Worker.FuncLocations": 2}
	methods := []string{"Worker.Compile", "Worker.Run", "Worker.Stat", "Worker.Read", "Worker.FuncLocations"}
	run := func(c c02case) { r.Case(c, func(t *vf.T) { runC02case(t, c) }) }
	for _, p := range programs {
		run(c02case{Program: p}) // failure-free
		for _, m := range methods {
			for k := 0; k < bounds[m]; k++ {
				for _, when := range []string{"before", "after"} {
					if r.Quick() {
						// first, middle and last ordinals of every method x before/after
						if !(k == 0 || k == bounds[m]/3 || k == bounds[m]-2) {
							continue
						}
					}
					run(c02case{Program: p, Kills: []ipAction{{Method: m, Ordinal: k, When: when, What: "kill-target"}}})
				}
			}
		}
		// the reply of a successful Worker.Run is in flight while its machine dies and is seen to be
		// stopped: the driver learns of the completion only after the loss
		for k := 0; k < bounds["Worker.Run"]; k++ {
			if r.Quick() && k%3 != 0 {
				continue
			}
			run(c02case{Program: p, Kills: []ipAction{{Method: "Worker.Run", Ordinal: k, When: "after", What: "kill-target-hold"}}})
		}
		// the machine dies in the middle of a streamed Worker.Read reply (shuffle read or final scan)
		for k := 0; k < bounds["Worker.Read"]; k++ {
			if r.Quick() && k%4 != 0 {
				continue
			}
			run(c02case{Program: p, Kills: []ipAction{{Method: "Worker.Read", Ordinal: k, When: "after", What: "kill-target-midbody"}}})
			// the same, with the broken stream surfacing only after the executor has recorded the loss:
			// the reader's retry must find the output recomputed and resume at its offset
			if !r.Quick() || k%8 == 0 || k == bounds["Worker.Read"]-2 {
				run(c02case{Program: p, Kills: []ipAction{{Method: "Worker.Read", Ordinal: k, When: "after", What: "kill-target-midbody-hold"}}})
			}
		}
		// kill another machine than the one addressed
		for k := 0; k < 6; k++ {
			if r.Quick() && k%3 != 0 {
				continue
			}
			run(c02case{Program: p, Kills: []ipAction{{Method: "Worker.Run", Ordinal: k, When: "after", What: "kill-any"}}})
		}
	}
	// pairs of kills
	rnd := r.Rand("pairs")
	np := 12
	if !r.Quick() {
		np = 500
	}
	for i := 0; i < np; i++ {
		var ks []ipAction
		for j := 0; j < 2; j++ {
			m := methods[rnd.Intn(4)]
			ks = append(ks, ipAction{Method: m, Ordinal: rnd.Intn(bounds[m]), When: []string{"before", "after"}[rnd.Intn(2)], What: []string{"kill-target", "kill-target", "kill-any"}[rnd.Intn(3)]})
		}
		run(c02case{Program: programs[rnd.Intn(len(programs))], Kills: ks})
	}
}
