package props

import (
	"context"
	"errors"
	"fmt"
	"io"
	"strings"
	"sync"
	"time"

	"github.com/grailbio/base/file"
)

// Fault-injecting file system (DESIGN §3.5): scheme "vfault" wraps base/file's local
// implementation, numbers every operation and fails the k-th with a chosen error.

var errFileFault = errors.New("verif: injected file fault")

type vfaultState struct {
	mu     sync.Mutex
	n      int      // operations so far
	log    []string // "k:op:path"
	failAt int      // fail the operation with this ordinal (-1: none)
	failOp string   // if non-empty, fail the failAt-th operation OF THIS KIND instead
	kindN  map[string]int
	fired  int
	short  bool // a failing Write first writes half of the data
	from   bool // fail every matching operation from failAt on (a persistent fault)
}

var vfault = &vfaultState{failAt: -1, kindN: map[string]int{}}

func (s *vfaultState) reset(failAt int, failOp string, short bool) {
	s.mu.Lock()
	defer s.mu.Unlock()
	s.n, s.log, s.failAt, s.failOp, s.kindN, s.fired, s.short, s.from = 0, nil, failAt, failOp, map[string]int{}, 0, short, false
}

func (s *vfaultState) persistent() {
	s.mu.Lock()
	s.from = true
	s.mu.Unlock()
}

// op registers an operation and tells whether it must fail.
func (s *vfaultState) op(kind, path string) bool {
	s.mu.Lock()
	defer s.mu.Unlock()
	k := s.n
	s.n++
	kn := s.kindN[kind]
	s.kindN[kind] = kn + 1
	if len(s.log) < 100000 {
		s.log = append(s.log, fmt.Sprintf("%d:%s:%s", k, kind, path[strings.LastIndex(path, "/")+1:]))
	}
	fail := false
	if s.failAt >= 0 {
		if s.failOp == "" {
			fail = k == s.failAt
		} else {
			fail = kind == s.failOp && (kn == s.failAt || s.from && kn > s.failAt)
		}
	}
	if fail {
		s.fired++
	}
	return fail
}

func (s *vfaultState) snapshot() (n int, log []string, fired int) {
	s.mu.Lock()
	defer s.mu.Unlock()
	return s.n, append([]string{}, s.log...), s.fired
}

type vfaultImpl struct{ local file.Implementation }

func vfLocal(path string) string {
	_, suffix, err := file.ParsePath(path)
	if err != nil {
		return path
	}
	return "/" + strings.TrimLeft(suffix, "/")
}

func (v *vfaultImpl) String() string { return "vfault" }

func (v *vfaultImpl) Open(ctx context.Context, path string, opts ...file.Opts) (file.File, error) {
	if vfault.op("Open", path) {
		return nil, errFileFault
	}
	f, err := v.local.Open(ctx, vfLocal(path), opts...)
	if err != nil {
		return nil, err
	}
	return &vfaultFile{File: f, path: path}, nil
}

func (v *vfaultImpl) Create(ctx context.Context, path string, opts ...file.Opts) (file.File, error) {
	if vfault.op("Create", path) {
		return nil, errFileFault
	}
	f, err := v.local.Create(ctx, vfLocal(path), opts...)
	if err != nil {
		return nil, err
	}
	return &vfaultFile{File: f, path: path}, nil
}

func (v *vfaultImpl) List(ctx context.Context, path string, recursive bool) file.Lister {
	return v.local.List(ctx, vfLocal(path), recursive)
}

func (v *vfaultImpl) Stat(ctx context.Context, path string, opts ...file.Opts) (file.Info, error) {
	if vfault.op("Stat", path) {
		return nil, errFileFault
	}
	return v.local.Stat(ctx, vfLocal(path), opts...)
}

func (v *vfaultImpl) Remove(ctx context.Context, path string) error {
	if vfault.op("Remove", path) {
		return errFileFault
	}
	return v.local.Remove(ctx, vfLocal(path))
}

func (v *vfaultImpl) Presign(ctx context.Context, path, method string, expiry time.Duration) (string, error) {
	return "", errors.New("not supported")
}

type vfaultFile struct {
	file.File
	path string
}

func (f *vfaultFile) Name() string { return f.path }

func (f *vfaultFile) Reader(ctx context.Context) io.ReadSeeker {
	return &vfaultRS{rs: f.File.Reader(ctx), path: f.path}
}

func (f *vfaultFile) Writer(ctx context.Context) io.Writer {
	return &vfaultW{w: f.File.Writer(ctx), path: f.path}
}

func (f *vfaultFile) Close(ctx context.Context) error {
	if vfault.op("Close", f.path) {
		f.File.Discard(ctx)
		return errFileFault
	}
	return f.File.Close(ctx)
}

func (f *vfaultFile) Discard(ctx context.Context) {
	vfault.op("Discard", f.path)
	f.File.Discard(ctx)
}

type vfaultRS struct {
	rs   io.ReadSeeker
	path string
}

func (r *vfaultRS) Read(p []byte) (int, error) {
	if vfault.op("Read", r.path) {
		return 0, errFileFault
	}
	return r.rs.Read(p)
}

func (r *vfaultRS) Seek(off int64, whence int) (int64, error) {
	if vfault.op("Seek", r.path) {
		return 0, errFileFault
	}
	return r.rs.Seek(off, whence)
}

type vfaultW struct {
	w    io.Writer
	path string
}

func (w *vfaultW) Write(p []byte) (int, error) {
	if vfault.op("Write", w.path) {
		if vfault.short && len(p) > 1 {
			n, _ := w.w.Write(p[:len(p)/2])
			return n, errFileFault
		}
		return 0, errFileFault
	}
	return w.w.Write(p)
}

func init() {
	file.RegisterImplementation("vfault", func() file.Implementation {
		return &vfaultImpl{local: file.NewLocalImplementation()}
	})
}
