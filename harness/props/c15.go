package props

import (
	"bytes"
	"context"
	"errors"
	"fmt"
	"io"
	"os"
	"time"

	"github.com/anishathalye/porcupine"
	"github.com/grailbio/base/retry"
	"github.com/grailbio/bigslice/exec"
	"verifharness/internal/vf"
)

// C15 — task stores are commit-atomic; remote reads resume without gaps or repeats.

func init() { Registry["C15"] = runC15 }

type c15op struct {
	Op   string `json:"op"` // create write commit discardw open stat discard
	Part int    `json:"part,omitempty"`
	N    int    `json:"n,omitempty"`   // bytes to write / offset to open at
	Rec  int64  `json:"rec,omitempty"` // record count for commit
	W    int    `json:"w,omitempty"`   // writer slot: two writers may be open for one partition
}

type c15case struct {
	Kind   string  `json:"kind"`  // seq | retry | conc
	Store  string  `json:"store"` // file | memory
	Ops    []c15op `json:"ops,omitempty"`
	FailAt int     `json:"failat"` // file-operation ordinal that fails (-1: none)
	Short  bool    `json:"short,omitempty"`
	// retry reader
	Len     int    `json:"len,omitempty"`
	Fails   []int  `json:"fails,omitempty"`   // byte positions at which the stream breaks (each once)
	Chunk   int    `json:"chunk,omitempty"`   // the underlying reader delivers at most this many bytes per Read
	Forever bool   `json:"forever,omitempty"` // the stream breaks at position Fails[0] on every attempt
	Partial bool   `json:"partial,omitempty"` // the failing Read returns the bytes before the break together with the error
	Seed    uint64 `json:"seed"`
}

type c15slot struct {
	committed bool
	data      []byte
	records   int64
}

// ---- sequential protocol with fault injection

func runC15seq(t *vf.T, c c15case) {
	ctx := context.Background()
	var store exec.Store
	dir := ""
	if c.Store == "file" {
		dir, _ = os.MkdirTemp("", "c15-")
		defer os.RemoveAll(dir)
		store = exec.VerifFileStore("vfault://" + dir + "/")
	} else {
		store = exec.VerifMemoryStore()
	}
	name := exec.TaskName{InvIndex: 1, Op: "verif_c15", Shard: 0, NumShard: 1}
	sig := "store=" + c.Store
	rnd := vf.NewRand(c.Seed)
	model := map[int]*c15slot{}
	type wr struct {
		w interface {
			io.Writer
			Commit(ctx context.Context, records int64) error
			Discard(ctx context.Context)
		}
		buf   []byte
		dirty bool // a write failed: the contents are unknown
	}
	writers := map[int]*wr{}
	vfault.reset(c.FailAt, "", c.Short)
	defer vfault.reset(-1, "", false)
	faulted := func() bool { _, _, f := vfault.snapshot(); return f > 0 }
	for oi, op := range c.Ops {
		p := op.Part
		wk := op.Part*4 + op.W // writers are keyed by (partition, slot)
		f0 := faulted()
		switch op.Op {
		case "create":
			if writers[wk] != nil {
				continue
			}
			w, err := store.Create(ctx, name, p)
			if err != nil {
				if model[p] != nil && model[p].committed && c.Store == "memory" {
					continue // memory store refuses to overwrite a committed partition
				}
				if faulted() && !f0 {
					continue
				}
				t.Violate(sig+" create-error", fmt.Sprintf("step %d: Create failed without an injected fault: %v", oi, err))
				return
			}
			writers[wk] = &wr{w: w}
		case "write":
			w := writers[wk]
			if w == nil {
				continue
			}
			b := make([]byte, op.N)
			for i := range b {
				b[i] = byte(rnd.Uint64())
			}
			n, err := w.w.Write(b)
			if err != nil {
				w.dirty = true
				w.buf = append(w.buf, b[:n]...)
			} else {
				w.buf = append(w.buf, b...)
			}
		case "commit":
			w := writers[wk]
			if w == nil {
				continue
			}
			err := w.w.Commit(ctx, op.Rec)
			delete(writers, wk)
			if err != nil && !faulted() && model[p] != nil && model[p].committed {
				// another writer has committed this partition in the meantime: a store may refuse
				// the second commit (the memory store does); the committed data must then stay
				t.Count("second_commits_refused", 1)
				continue
			}
			fnow := faulted() && !f0
			if err == nil {
				if w.dirty || fnow {
					// The commit reported success although a write of this writer, or an operation of the
					// commit itself, failed: check below that the data really are all there.
					t.Count("commits_succeeding_despite_fault", 1)
				}
				model[p] = &c15slot{committed: true, data: append([]byte{}, w.buf...), records: op.Rec}
				if w.dirty {
					// The failed Write was reported to the caller, who must not have committed: the
					// contents are unknown, and nothing further is asserted about this partition.
					model[p] = &c15slot{committed: false}
				}
			} else if !faulted() {
				t.Violate(sig+" commit-error", fmt.Sprintf("step %d: Commit failed without an injected fault: %v", oi, err))
				return
			} else {
				// failed commit: the partition must not become visible with other contents; an older
				// committed version may or may not survive
				if model[p] != nil {
					model[p] = &c15slot{committed: false}
				}
			}
		case "discardw":
			if w := writers[wk]; w != nil {
				w.w.Discard(ctx)
				delete(writers, wk)
			}
		case "open":
			rc, err := store.Open(ctx, name, p, int64(op.N))
			m := model[p]
			if err != nil {
				if m != nil && m.committed && op.N <= len(m.data) && !(faulted() && !f0) {
					t.Violate(sig+" open-error", fmt.Sprintf("step %d: Open(offset %d) of a committed partition (%d bytes) failed: %v", oi, op.N, len(m.data), err))
					return
				}
				continue
			}
			got, rerr := io.ReadAll(rc)
			rc.Close()
			if m == nil || !m.committed {
				if m != nil && !m.committed {
					continue // after a failed commit the state is unspecified
				}
				t.Violate(sig+" visible-before-commit", fmt.Sprintf("step %d: Open succeeded (%d bytes) for a partition that was never committed", oi, len(got)))
				return
			}
			if rerr != nil {
				if faulted() {
					continue
				}
				t.Violate(sig+" read-error", fmt.Sprintf("step %d: %v", oi, rerr))
				return
			}
			if op.N > len(m.data) {
				continue
			}
			if !bytes.Equal(got, m.data[op.N:]) {
				how := "no fault"
				if faulted() {
					how = "after an injected fault"
				}
				t.Violate(sig+" bytes-differ "+how, fmt.Sprintf("step %d: Open(offset %d) returned %d bytes, committed[%d:] has %d bytes (first difference at %d); ops %v", oi, op.N, len(got), op.N, len(m.data)-op.N, firstDiff(got, m.data[op.N:]), c.Ops))
				return
			}
			t.Count("reads_verified", 1)
		case "stat":
			info, err := store.Stat(ctx, name, p)
			m := model[p]
			if err != nil {
				if m != nil && m.committed && !faulted() {
					t.Violate(sig+" stat-error", fmt.Sprintf("step %d: Stat of a committed partition failed: %v", oi, err))
					return
				}
				continue
			}
			if m == nil {
				t.Violate(sig+" visible-before-commit", fmt.Sprintf("step %d: Stat succeeded for a partition that was never committed", oi))
				return
			}
			if m.committed && !faulted() && (info.Records != m.records || info.Size != int64(len(m.data))) {
				t.Violate(sig+" stat-differs", fmt.Sprintf("step %d: Stat says size %d records %d; committed %d bytes, %d records", oi, info.Size, info.Records, len(m.data), m.records))
				return
			}
		case "discard":
			err := store.Discard(ctx, name, p)
			if err == nil {
				delete(model, p)
			} else if model[p] != nil && !faulted() && model[p].committed {
				t.Violate(sig+" discard-error", fmt.Sprintf("step %d: %v", oi, err))
				return
			}
		}
	}
	_, _, fired := vfault.snapshot()
	if fired > 0 {
		t.Count("ops_faulted", int64(fired))
		t.Nontrivial("")
	}
	t.Count("sequences", 1)
}

func firstDiff(a, b []byte) int {
	for i := 0; i < len(a) && i < len(b); i++ {
		if a[i] != b[i] {
			return i
		}
	}
	if len(a) < len(b) {
		return len(a)
	}
	return len(b)
}

// ---- retry reader

type c15stream struct {
	data    []byte
	off     int
	fails   map[int]bool
	chunk   int
	hit     *int
	forever int
	partial bool
}

var errC15 = errors.New("verif: injected transient stream failure")
var errC15budget = errors.New("verif: stream withdrawn after far more re-opens than the retry budget allows")

func (s *c15stream) Read(p []byte) (int, error) {
	if s.off >= len(s.data) {
		return 0, io.EOF
	}
	n := len(p)
	if s.chunk > 0 && n > s.chunk {
		n = s.chunk
	}
	if n > len(s.data)-s.off {
		n = len(s.data) - s.off
	}
	// break exactly at the next failure position
	for f := range s.fails {
		if f >= s.off && f < s.off+n || f == s.off {
			if f == s.off {
				if s.forever < 0 {
					delete(s.fails, f)
				}
				*s.hit++
				return 0, errC15
			}
			n = f - s.off
			if s.partial {
				// io.Reader allows data together with an error (e.g. a connection reset mid-body):
				// these bytes were not delivered by the failing call's consumer and must be re-read
				copy(p, s.data[s.off:s.off+n])
				if s.forever < 0 {
					delete(s.fails, f)
				}
				*s.hit++
				return n, errC15
			}
		}
	}
	copy(p, s.data[s.off:s.off+n])
	s.off += n
	return n, nil
}

func (s *c15stream) Close() error { return nil }

func runC15retry(t *vf.T, c c15case) {
	quietLogs()
	old := exec.VerifSetRetryPolicy(retry.MaxRetries(retry.Backoff(time.Nanosecond, time.Nanosecond, 1), 5))
	defer exec.VerifSetRetryPolicy(old)
	rnd := vf.NewRand(c.Seed)
	data := make([]byte, c.Len)
	for i := range data {
		data[i] = byte(rnd.Uint64())
	}
	fails := map[int]bool{}
	for _, f := range c.Fails {
		fails[f] = true
	}
	hits, opens, openFails := 0, 0, 0
	exceeded := false
	// each scripted failure position costs one re-open when transient; a persistent one at most the
	// budget of 5 retries (plus the first open)
	openBound := 2*len(c.Fails) + 60
	forever := -1
	if c.Forever {
		forever = 1
	}
	rr := exec.VerifNewRetryReader(context.Background(), func(ctx context.Context, off int64) (io.ReadCloser, error) {
		opens++
		if opens > openBound {
			// far more re-opens than the retry budget allows for this script: stop serving the stream,
			// so that a reader that never gives up comes back at all (every correct reader has stopped
			// or finished long before)
			exceeded = true
			return nil, errC15budget
		}
		if off < 0 || int(off) > len(data) {
			return nil, fmt.Errorf("bad offset %d", off)
		}
		return &c15stream{data: data, off: int(off), fails: fails, chunk: c.Chunk, hit: &hits, forever: forever, partial: c.Partial}, nil
	})
	_ = openFails
	var got []byte
	buf := make([]byte, 1+int(c.Seed%7))
	var err error
	for i := 0; i < 10*c.Len+100; i++ {
		var n int
		n, err = rr.Read(buf)
		got = append(got, buf[:n]...)
		if err != nil {
			break
		}
	}
	rr.Close()
	sig := "retryreader"
	if exceeded {
		t.Violate(sig+" retry-budget-not-enforced", fmt.Sprintf("the reader re-opened the stream more than %d times (failures scripted at %v, persistent=%v, retry budget 5): it does not give up; %d bytes delivered", openBound, c.Fails, c.Forever, len(got)))
		return
	}
	// consecutive failures at one position exceed the budget only when Forever
	if c.Forever {
		if err == nil || err == io.EOF {
			t.Violate(sig+" success-beyond-budget", fmt.Sprintf("the stream fails at byte %d on every attempt, but the reader ended with %v after %d bytes of %d", c.Fails[0], err, len(got), len(data)))
			return
		}
		if !bytes.Equal(got, data[:len(got)]) || len(got) > c.Fails[0] {
			t.Violate(sig+" bytes-before-error", fmt.Sprintf("delivered %d bytes before the error; the stream breaks at %d; prefix equal: %v", len(got), c.Fails[0], bytes.Equal(got, data[:min(len(got), len(data))])))
			return
		}
		t.Count("budget_exhaustions_reported", 1)
	} else {
		if err != io.EOF {
			t.Violate(sig+" error-within-budget", fmt.Sprintf("transient failures at %v (each once) stay within the retry budget, but the reader failed with %v after %d of %d bytes", c.Fails, err, len(got), len(data)))
			return
		}
		if !bytes.Equal(got, data) {
			kind := "gap"
			if len(got) > len(data) {
				kind = "repeat"
			}
			t.Violate(sig+" stream-differs-"+kind, fmt.Sprintf("delivered %d bytes, committed stream has %d; first difference at %d; failures at %v chunk %d", len(got), len(data), firstDiff(got, data), c.Fails, c.Chunk))
			return
		}
	}
	t.Count("resumptions", int64(hits))
	t.Count("retry_streams", 1)
	if hits > 0 {
		t.Nontrivial("")
	}
}

func min(a, b int) int {
	if a < b {
		return a
	}
	return b
}

// ---- concurrent writer / readers / discarder, checked with porcupine

type c15in struct {
	Op   string // commit open discard
	Data string
}

type c15out struct {
	OK   bool
	Data string
}

func runC15conc(t *vf.T, c c15case) {
	ctx := context.Background()
	var store exec.Store
	if c.Store == "file" {
		dir, _ := os.MkdirTemp("", "c15c-")
		defer os.RemoveAll(dir)
		store = exec.VerifFileStore(dir + "/")
	} else {
		store = exec.VerifMemoryStore()
	}
	name := exec.TaskName{InvIndex: 1, Op: "verif_c15c", Shard: 0, NumShard: 1}
	var clock int64
	var mu chan struct{} = make(chan struct{}, 1)
	mu <- struct{}{}
	var ops []porcupine.Operation
	tick := func() int64 { <-mu; clock++; v := clock; mu <- struct{}{}; return v }
	record := func(id int, in c15in, call int64, out c15out) {
		ret := tick()
		<-mu
		ops = append(ops, porcupine.Operation{ClientId: id, Input: in, Call: call, Output: out, Return: ret})
		mu <- struct{}{}
	}
	rnd := vf.NewRand(c.Seed)
	payloads := []string{"alpha-payload", "bravo-payload-longer", "c"}
	done := make(chan struct{})
	nclients := 4
	for id := 0; id < nclients; id++ {
		id := id
		r := rnd.Fork()
		go func() {
			defer func() { done <- struct{}{} }()
			for k := 0; k < 6; k++ {
				switch x := r.Intn(10); {
				case id == 0 && x < 6:
					// writer: create, write, commit a uniquely identifiable payload
					data := fmt.Sprintf("%s#%d.%d", payloads[r.Intn(3)], id, k)
					call := tick()
					w, err := store.Create(ctx, name, 0)
					ok := false
					if err == nil {
						w.Write([]byte(data))
						ok = w.Commit(ctx, 1) == nil
					}
					record(id, c15in{Op: "commit", Data: data}, call, c15out{OK: ok})
				case x < 8:
					call := tick()
					rc, err := store.Open(ctx, name, 0, 0)
					if err != nil {
						record(id, c15in{Op: "open"}, call, c15out{OK: false})
						continue
					}
					b, rerr := io.ReadAll(rc)
					rc.Close()
					record(id, c15in{Op: "open"}, call, c15out{OK: rerr == nil, Data: string(b)})
				default:
					call := tick()
					err := store.Discard(ctx, name, 0)
					record(id, c15in{Op: "discard"}, call, c15out{OK: err == nil})
				}
			}
		}()
	}
	for i := 0; i < nclients; i++ {
		<-done
	}
	// Sequential model: a register holding the committed payload ("" = absent). A commit that
	// reports success installs its payload; a failed commit leaves the register as it is (the
	// memory store refuses to overwrite); open returns the register or fails when absent; discard
	// empties it.
	model := porcupine.Model{
		Init: func() interface{} { return "" },
		Step: func(st, in, out interface{}) (bool, interface{}) {
			s, i, o := st.(string), in.(c15in), out.(c15out)
			switch i.Op {
			case "commit":
				if o.OK {
					return true, i.Data
				}
				return true, s
			case "open":
				if !o.OK {
					return true, s // a read may fail (e.g. the entry vanished under it)
				}
				return o.Data == s && s != "", s
			case "discard":
				if o.OK {
					return true, ""
				}
				return s == "", s
			}
			return false, s
		},
	}
	res, _ := porcupine.CheckOperationsVerbose(model, ops, 20*time.Second)
	switch res {
	case porcupine.Illegal:
		t.Violate("store="+c.Store+" concurrent-history-not-linearizable", fmt.Sprintf("history of %d operations by %d clients has no linearization against the register model: %v", len(ops), nclients, c15history(ops)))
	case porcupine.Unknown:
		t.Inconclusive("porcupine timed out")
	default:
		t.Count("porcupine_histories_ok", 1)
		t.Count("porcupine_operations", int64(len(ops)))
		t.Nontrivial("")
	}
}

func c15history(ops []porcupine.Operation) string {
	s := ""
	for _, o := range ops {
		s += fmt.Sprintf("[c%d %d-%d %v -> %v] ", o.ClientId, o.Call, o.Return, o.Input, o.Output)
	}
	if len(s) > 1500 {
		s = s[:1500]
	}
	return s
}

func runC15(r *vf.Runner) {
	rnd := r.Rand("c15")
	// (a) all operation sequences up to a length over one partition, with a fault at every file
	// operation ordinal (file store) -- sequences are built from a protocol alphabet
	alphabet := []c15op{{Op: "create"}, {Op: "write", N: 5}, {Op: "write", N: 300}, {Op: "commit", Rec: 7}, {Op: "discardw"}, {Op: "open"}, {Op: "open", N: 3}, {Op: "stat"}, {Op: "discard"}}
	maxLen := 4
	if !r.Quick() {
		maxLen = 5
	}
	var seqs [][]c15op
	var rec func(cur []c15op)
	rec = func(cur []c15op) {
		if len(cur) > 0 {
			seqs = append(seqs, append([]c15op{}, cur...))
		}
		if len(cur) == maxLen {
			return
		}
		for _, a := range alphabet {
			rec(append(cur, a))
		}
	}
	rec(nil)
	for i, sq := range seqs {
		for _, st := range []string{"file", "memory"} {
			if r.Quick() && i%3 != 0 {
				continue
			}
			c := c15case{Kind: "seq", Store: st, Ops: sq, FailAt: -1, Seed: uint64(i)}
			r.Case(c, func(t *vf.T) { runC15seq(t, c) })
		}
	}
	// the write-commit-read protocol with a fault at every ordinal
	proto := [][]c15op{
		{{Op: "create"}, {Op: "write", N: 100}, {Op: "commit", Rec: 3}, {Op: "open"}, {Op: "stat"}, {Op: "open", N: 40}},
		{{Op: "create"}, {Op: "write", N: 10}, {Op: "write", N: 5000}, {Op: "commit", Rec: 3}, {Op: "open", N: 9}, {Op: "discard"}, {Op: "open"}},
		{{Op: "create"}, {Op: "write", N: 10}, {Op: "commit", Rec: 1}, {Op: "create"}, {Op: "write", N: 20}, {Op: "commit", Rec: 2}, {Op: "open"}, {Op: "stat"}},
		{{Op: "create"}, {Op: "commit", Rec: 0}, {Op: "open"}, {Op: "stat"}},
		// several partitions of one task: discarding one leaves the others as they were
		{{Op: "create"}, {Op: "create", Part: 1}, {Op: "create", Part: 2}, {Op: "write", N: 10}, {Op: "write", N: 20, Part: 1}, {Op: "write", N: 30, Part: 2},
			{Op: "commit", Rec: 1}, {Op: "commit", Rec: 2, Part: 1}, {Op: "commit", Rec: 3, Part: 2}, {Op: "discard", Part: 2}, {Op: "open"}, {Op: "stat", Part: 1}, {Op: "open", Part: 1, N: 4}, {Op: "open", Part: 2},
			{Op: "discard"}, {Op: "open", Part: 1}, {Op: "stat"}},
		{{Op: "create", Part: 1}, {Op: "create"}, {Op: "write", N: 8, Part: 1}, {Op: "write", N: 9}, {Op: "commit", Rec: 2, Part: 1}, {Op: "commit", Rec: 1}, {Op: "discard", Part: 1}, {Op: "stat"}, {Op: "open"}, {Op: "open", Part: 1}},
		// two writers open for the same partition, both commit: every commit that reports success
		// must be what readers then see
		{{Op: "create"}, {Op: "create", W: 1}, {Op: "write", N: 10}, {Op: "write", N: 20, W: 1}, {Op: "commit", Rec: 1}, {Op: "open"}, {Op: "commit", Rec: 2, W: 1}, {Op: "open"}, {Op: "stat"}, {Op: "open", N: 15}},
		{{Op: "create"}, {Op: "create", W: 1}, {Op: "write", N: 30}, {Op: "write", N: 7, W: 1}, {Op: "commit", Rec: 2, W: 1}, {Op: "commit", Rec: 1}, {Op: "open"}, {Op: "stat"}, {Op: "open", N: 5}},
	}
	for pi, p := range proto {
		for k := 0; k < 24; k++ {
			for _, short := range []bool{false, true} {
				c := c15case{Kind: "seq", Store: "file", Ops: p, FailAt: k, Short: short, Seed: uint64(pi)}
				r.Case(c, func(t *vf.T) { runC15seq(t, c) })
			}
		}
	}
	// the protocols also fault-free, on both stores (two writers on one partition included)
	for pi, p := range proto {
		for _, st := range []string{"file", "memory"} {
			c := c15case{Kind: "seq", Store: st, Ops: p, FailAt: -1, Seed: uint64(100 + pi)}
			r.Case(c, func(t *vf.T) { runC15seq(t, c) })
		}
	}
	// (b) retry reader: failure at every byte position and every partial-read size of short streams
	maxL := 24
	if !r.Quick() {
		maxL = 64
	}
	for _, l := range []int{0, 1, 7, maxL} {
		for pos := 0; pos <= l; pos++ {
			for _, chunk := range []int{0, 1, 3} {
				c := c15case{Kind: "retry", Len: l, Fails: []int{pos}, Chunk: chunk, Seed: uint64(l*100 + pos)}
				r.Case(c, func(t *vf.T) { runC15retry(t, c) })
				cp := c
				cp.Partial = true
				r.Case(cp, func(t *vf.T) { runC15retry(t, cp) })
				if pos < l {
					cf := c
					cf.Forever = true
					r.Case(cf, func(t *vf.T) { runC15retry(t, cf) })
				}
			}
		}
	}
	n := 300
	if !r.Quick() {
		n = 20000
	}
	for i := 0; i < n; i++ {
		c := c15case{Kind: "retry", Len: rnd.Pick(5, 64, 1000, 65536), Chunk: rnd.Pick(0, 1, 7, 4096), Seed: rnd.Uint64(), Partial: rnd.Bool()}
		for j, k := 0, rnd.Intn(5); j < k; j++ {
			c.Fails = append(c.Fails, rnd.Intn(c.Len+1))
		}
		r.Case(c, func(t *vf.T) { runC15retry(t, c) })
	}
	// (c) concurrent histories
	nc := 60
	if !r.Quick() {
		nc = 3000
	}
	for i := 0; i < nc; i++ {
		c := c15case{Kind: "conc", Store: []string{"file", "memory"}[i%2], FailAt: -1, Seed: rnd.Uint64()}
		r.Case(c, func(t *vf.T) { runC15conc(t, c) })
	}
}
