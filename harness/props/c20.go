package props

import (
	"bytes"
	"encoding/gob"
	"fmt"
	"sync"

	"github.com/grailbio/bigslice/metrics"
	"verifharness/internal/vf"
)

// C20 — user metrics merge additively and survive transport. Part (a): laws of
// Scope/Counter against a map model. Part (b) (end-to-end totals) is in c20e2e.go.

func init() { Registry["C20"] = runC20 }

const nCounters = 8

// verifCounters are registered at package initialisation, in the same order in every process.
var verifCounters [nCounters]metrics.Counter

func init() {
	for i := range verifCounters {
		verifCounters[i] = metrics.NewCounter()
	}
}

type c20op struct {
	Op string `json:"op"` // incr merge reset resetnil gob read conc
	S  int    `json:"s"`
	U  int    `json:"u,omitempty"`
	C  int    `json:"c,omitempty"`
	N  int64  `json:"n,omitempty"`
}

type c20case struct {
	Scopes int `json:"scopes"`
	// Read selects how the monitor reads a scope after every step. Counter.Value instantiates
	// the counter in the scope it reads, so reading the scopes under test directly after every
	// step means that no later operation ever meets a scope without an instance:
	//   direct - Counter.Value on the scope itself (what a user does), after every step
	//   copy   - Counter.Value on a fresh scope Reset to the scope under test
	//   gob    - Counter.Value on a gob round trip of the scope under test
	//   end    - nothing until the end of the history
	// Every mode finishes with a direct read of every scope.
	Read string  `json:"read"`
	Ops  []c20op `json:"ops"`
}

func runC20laws(t *vf.T, c c20case) {
	scopes := make([]*metrics.Scope, c.Scopes)
	model := make([][nCounters]int64, c.Scopes)
	for i := range scopes {
		scopes[i] = new(metrics.Scope)
	}
	check := func(after string, step int, mode string) bool {
		if mode == "end" {
			return true
		}
		for i, s := range scopes {
			view := s
			switch mode {
			case "copy":
				view = new(metrics.Scope)
				view.Reset(s)
			case "gob":
				var b bytes.Buffer
				view = new(metrics.Scope)
				if err := gob.NewEncoder(&b).Encode(s); err != nil {
					t.Violate("laws gob-encode", err.Error())
					return false
				}
				if err := gob.NewDecoder(&b).Decode(view); err != nil {
					t.Violate("laws gob-decode", err.Error())
					return false
				}
			}
			for ci, ctr := range verifCounters {
				if got := ctr.Value(view); got != model[i][ci] {
					t.Violate("laws op="+after, fmt.Sprintf("after step %d (%s, read=%s): scope %d counter %d reports %d, the model says %d; ops=%v", step, after, mode, i, ci, got, model[i][ci], c.Ops[:step+1]))
					return false
				}
			}
		}
		return true
	}
	combined := 0
	for step, op := range c.Ops {
		s, u := op.S%c.Scopes, op.U%c.Scopes
		switch op.Op {
		case "incr":
			verifCounters[op.C%nCounters].Incr(scopes[s], op.N)
			model[s][op.C%nCounters] += op.N
		case "conc":
			var wg sync.WaitGroup
			for g := 0; g < 4; g++ {
				wg.Add(1)
				go func() {
					defer wg.Done()
					for k := 0; k < 50; k++ {
						verifCounters[op.C%nCounters].Incr(scopes[s], op.N)
					}
				}()
			}
			wg.Wait()
			model[s][op.C%nCounters] += 200 * op.N
		case "merge":
			if s == u {
				continue
			}
			scopes[s].Merge(scopes[u])
			for ci := range model[s] {
				model[s][ci] += model[u][ci]
			}
			combined++
		case "reset":
			if s == u {
				continue
			}
			scopes[s].Reset(scopes[u])
			model[s] = model[u]
			combined++
		case "resetnil":
			scopes[s].Reset(nil)
			model[s] = [nCounters]int64{}
		case "gob":
			var b bytes.Buffer
			if err := gob.NewEncoder(&b).Encode(scopes[s]); err != nil {
				t.Violate("laws gob-encode", err.Error())
				return
			}
			fresh := new(metrics.Scope)
			if err := gob.NewDecoder(&b).Decode(fresh); err != nil {
				t.Violate("laws gob-decode", err.Error())
				return
			}
			// the decoded scope replaces scope u (as a worker's reply replaces the task scope)
			scopes[u] = fresh
			model[u] = model[s]
			combined++
		case "read":
		}
		t.Count("law_op_"+op.Op, 1)
		if !check(op.Op, step, c.Read) {
			return
		}
	}
	if len(c.Ops) > 0 && !check("end-of-history", len(c.Ops)-1, "direct") {
		return
	}
	t.Count("law_histories_read_"+c.Read, 1)
	if combined >= 1 {
		t.Nontrivial("")
	}
}

func runC20(r *vf.Runner) {
	rnd := r.Rand("laws")
	n := 3000
	if !r.Quick() {
		n = 100000
	}
	names := []string{"incr", "incr", "incr", "merge", "merge", "reset", "resetnil", "gob", "read", "conc"}
	for i := 0; i < n; i++ {
		c := c20case{Scopes: 1 + rnd.Intn(6), Read: []string{"direct", "copy", "gob", "end"}[i%4]}
		for j, k := 0, 1+rnd.Intn(50); j < k; j++ {
			c.Ops = append(c.Ops, c20op{Op: names[rnd.Intn(len(names))], S: rnd.Intn(6), U: rnd.Intn(6), C: rnd.Intn(nCounters), N: int64(rnd.Intn(2000)) - 500})
		}
		r.Case(c, func(t *vf.T) { runC20laws(t, c) })
	}
	runC20e2e(r)
	runC20chains(r)
	runC20drops(r)
	// partly cached results (the two-run cases of the C13 monitor, judged here for their user
	// metrics): the tasks of one slice then differ in their dependencies -- a cached shard has
	// none -- and the result's scope must still merge every task that ran, once
	for _, conf := range []sessConf{localP4, bm2} {
		for _, pos := range []string{"after-shuffle", "before-shuffle", "middle"} {
			for present := 0; present < 1<<3; present++ {
				if r.Quick() && pos != "after-shuffle" && present%3 != 1 {
					continue
				}
				c := c13case{Conf: conf, Kind: "cachepartial", Position: pos, Shards: 3, Rows: 130, Present: present, FailAt: -1, UserFail: -1, Seed: 10}
				r.Case(c, func(t *vf.T) {
					runC13case(t, c)
					t.Count("partly_cached_runs", 1)
				})
			}
		}
	}
}
