package props

import (
	"bytes"
	"encoding/gob"
	"fmt"
	"sync"

	"github.com/grailbio/bigslice/metrics"
	"verifharness/internal/vf"
)

// C20 — user metrics merge additively and survive transport. Part (a): laws of
// Scope/Counter against a map model. Part (b) (end-to-end totals) is in c20e2e.go.

func init() { Registry["C20"] = runC20 }

const nCounters = 8

// verifCounters are registered at package initialisation, in the same order in every process.
var verifCounters [nCounters]metrics.Counter

func init() {
	for i := range verifCounters {
		verifCounters[i] = metrics.NewCounter()
	}
}

type c20op struct {
	Op string `json:"op"` // incr merge reset resetnil gob read conc
	S  int    `json:"s"`
	U  int    `json:"u,omitempty"`
	C  int    `json:"c,omitempty"`
	N  int64  `json:"n,omitempty"`
}

type c20case struct {
	Scopes int     `json:"scopes"`
	Ops    []c20op `json:"ops"`
}

func runC20laws(t *vf.T, c c20case) {
	scopes := make([]*metrics.Scope, c.Scopes)
	model := make([][nCounters]int64, c.Scopes)
	for i := range scopes {
		scopes[i] = new(metrics.Scope)
	}
	check := func(after string, step int) bool {
		for i, s := range scopes {
			for ci, ctr := range verifCounters {
				if got := ctr.Value(s); got != model[i][ci] {
					t.Violate("laws op="+after, fmt.Sprintf("after step %d (%s): scope %d counter %d reports %d, the model says %d; ops=%v", step, after, i, ci, got, model[i][ci], c.Ops[:step+1]))
					return false
				}
			}
		}
		return true
	}
	combined := 0
	for step, op := range c.Ops {
		s, u := op.S%c.Scopes, op.U%c.Scopes
		switch op.Op {
		case "incr":
			verifCounters[op.C%nCounters].Incr(scopes[s], op.N)
			model[s][op.C%nCounters] += op.N
		case "conc":
			var wg sync.WaitGroup
			for g := 0; g < 4; g++ {
				wg.Add(1)
				go func() {
					defer wg.Done()
					for k := 0; k < 50; k++ {
						verifCounters[op.C%nCounters].Incr(scopes[s], op.N)
					}
				}()
			}
			wg.Wait()
			model[s][op.C%nCounters] += 200 * op.N
		case "merge":
			if s == u {
				continue
			}
			scopes[s].Merge(scopes[u])
			for ci := range model[s] {
				model[s][ci] += model[u][ci]
			}
			combined++
		case "reset":
			if s == u {
				continue
			}
			scopes[s].Reset(scopes[u])
			model[s] = model[u]
			combined++
		case "resetnil":
			scopes[s].Reset(nil)
			model[s] = [nCounters]int64{}
		case "gob":
			var b bytes.Buffer
			if err := gob.NewEncoder(&b).Encode(scopes[s]); err != nil {
				t.Violate("laws gob-encode", err.Error())
				return
			}
			fresh := new(metrics.Scope)
			if err := gob.NewDecoder(&b).Decode(fresh); err != nil {
				t.Violate("laws gob-decode", err.Error())
				return
			}
			// the decoded scope replaces scope u (as a worker's reply replaces the task scope)
			scopes[u] = fresh
			model[u] = model[s]
			combined++
		case "read":
		}
		t.Count("law_op_"+op.Op, 1)
		if !check(op.Op, step) {
			return
		}
	}
	if combined >= 1 {
		t.Nontrivial("")
	}
}

func runC20(r *vf.Runner) {
	rnd := r.Rand("laws")
	n := 3000
	if !r.Quick() {
		n = 100000
	}
	names := []string{"incr", "incr", "incr", "merge", "merge", "reset", "resetnil", "gob", "read", "conc"}
	for i := 0; i < n; i++ {
		c := c20case{Scopes: 1 + rnd.Intn(6)}
		for j, k := 0, 1+rnd.Intn(50); j < k; j++ {
			c.Ops = append(c.Ops, c20op{Op: names[rnd.Intn(len(names))], S: rnd.Intn(6), U: rnd.Intn(6), C: rnd.Intn(nCounters), N: int64(rnd.Intn(2000)) - 500})
		}
		r.Case(c, func(t *vf.T) { runC20laws(t, c) })
	}
	runC20e2e(r)
}
