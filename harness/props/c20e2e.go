package props

import "verifharness/internal/vf"

// runC20e2e is filled in once the program generator exists.
func runC20e2e(r *vf.Runner) {}
