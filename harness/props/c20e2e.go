package props

import (
	"fmt"
	"sync/atomic"
	"time"

	"github.com/grailbio/bigslice"
	"github.com/grailbio/bigslice/exec"
	"verifharness/internal/vf"
)

// runC20e2e: for failure-free runs on both executors, Counter.Value(result.Scope()) must equal
// the increments the user functions performed (counted independently by the recorder). The
// comparison itself is shared with C04 (runC04case: "counters-differ-from-increments").
func runC20e2e(r *vf.Runner) {
	pool := &sessionPool{}
	defer pool.closeAll()
	rnd := r.Rand("e2e")
	n := 30
	if !r.Quick() {
		n = 600
	}
	// no early-terminating consumers: how far a Head pulls its upstream depends on the vector size
	ops := []string{"map", "map", "filter", "flatmap", "fold", "reduce", "cogroup", "reshuffle", "repartition", "reshard", "prefixed", "writerfunc", "mapkv"}
	opts := genOpts{MaxOps: 6, Sources: []string{"const", "readerfunc"}, Ops: ops, NoWeakHead: true, NoScan: true, Ctx: true}
	for i := 0; i < n; i++ {
		c := c04case{Spec: genSpec(rnd.Fork(), opts)}
		c.Confs = []execConf{defaultExec(localP4), defaultExec(bm2)}
		if i%3 == 0 {
			c.Confs = append(c.Confs, defaultExec(sessConf{Kind: "bigmachine", P: 2, MachProcs: 1, MaxLoad: 0.95}))
		}
		r.Case(c, func(t *vf.T) { runC04case(t, pool, c) })
	}
}

// c20chain: results that feed later Funcs. A result's task graph then contains the tasks of the
// results it was derived from, and Result.Scope() merges task scopes that an earlier
// Result.Scope() has already merged elsewhere.
type c20chain struct {
	Conf  sessConf  `json:"conf"`
	Base  Spec      `json:"base"`
	Steps []c20link `json:"steps"`
}

type c20link struct {
	R, R2 int  `json:"r"`
	Spec  Spec `json:"spec"`
	// ReadFirst: read the scopes of all earlier results before this step runs (the order of
	// reads decides which scope is merged into an empty one)
	ReadFirst bool `json:"read_first,omitempty"`
	// Discard: result R is discarded before this step runs, so that the step recomputes the tasks
	// of R (and of everything R was derived from): no failure is involved, and a recomputed task
	// reports the increments of its latest execution, once.
	Discard bool `json:"discard,omitempty"`
}

func runC20chain(t *vf.T, c c20chain) {
	ls := startSession(c.Conf)
	defer ls.Close()
	run := fmt.Sprintf("c20c-%d", t.Index())
	type node struct {
		res  *exec.Result
		want *rel
		own  [nCounters]int64
		anc  map[int]bool // indices of the results whose tasks are in this result's graph (itself included)
	}
	var nodes []*node
	expect := func(n *node) (v [nCounters]int64) {
		for i := range n.anc {
			for k := range v {
				v[k] += nodes[i].own[k]
			}
		}
		return v
	}
	readAll := func(when string) bool {
		for i, n := range nodes {
			if got, want := counterValues(n.res), expect(n); got != want {
				t.Violate("chain counters-differ exec="+c.Conf.Kind+" when="+when, fmt.Sprintf("result %d of the chain reports %v; the user functions of its task graph performed %v (own %v, graph %v) | base %s", i, got, want, n.own, n.anc, specString(&c.Base)))
				return false
			}
			t.Count("chain_scope_reads", 1)
		}
		return true
	}
	exec1 := func(sp Spec, args [2]bigslice.Slice, want *rel, anc map[int]bool) bool {
		o := runSpec(ls, sp, args, true, 120*time.Second)
		pr := probeFor(sp.Run)
		var own [nCounters]int64
		pr.mu.Lock()
		for k, v := range pr.incrs {
			own[k] = *v
		}
		pr.mu.Unlock()
		probes.Delete(sp.Run)
		switch {
		case o.TimedOut:
			t.Inconclusive("watchdog in chain run")
			return false
		case o.Panic != nil || o.RunErr != nil || o.ScanErr != nil:
			t.Violate("chain run-failed exec="+c.Conf.Kind, fmt.Sprintf("run: %v scan: %v panic: %v | %s", o.RunErr, o.ScanErr, o.Panic, specString(&sp)))
			return false
		}
		if d := compareResult(o.Rows, want); d != "" {
			t.Violate("chain rows-differ exec="+c.Conf.Kind, d+" | "+specString(&sp))
			return false
		}
		anc[len(nodes)] = true
		nodes = append(nodes, &node{res: o.Res, want: want, own: own, anc: anc})
		return true
	}
	base := c.Base
	base.Run = run + "-base"
	want0, _, err := evalSpec(&base, nil)
	if err != nil || want0.Weak || len(want0.Kinds) == 0 {
		return
	}
	if !exec1(base, [2]bigslice.Slice{}, want0, map[int]bool{}) {
		return
	}
	nonzero := 0
	for si, st := range c.Steps {
		if st.R >= len(nodes) || st.R2 >= len(nodes) {
			continue
		}
		if st.ReadFirst && !readAll("before-derive") {
			return
		}
		sp := st.Spec
		sp.Run = fmt.Sprintf("%s-s%d", run, si)
		a, b := nodes[st.R], nodes[st.R2]
		want, _, err := evalSpec(&sp, []*rel{a.want, b.want})
		if err != nil || want.Weak || len(want.Kinds) == 0 {
			continue
		}
		// which arguments does the program's result actually depend on
		anc := map[int]bool{}
		reach := make([]bool, len(sp.Nodes))
		reach[len(sp.Nodes)-1] = true
		for ni := len(sp.Nodes) - 1; ni >= 0; ni-- {
			if !reach[ni] {
				continue
			}
			for _, in := range sp.Nodes[ni].In {
				reach[in] = true
			}
			if sp.Nodes[ni].Op == "arg" {
				for i := range []*node{a, b}[sp.Nodes[ni].Arg].anc {
					anc[i] = true
				}
			}
		}
		if st.Discard {
			a.res.Discard(bgctx)
			t.Count("chain_discards_before_a_step", 1)
		}
		if !exec1(sp, [2]bigslice.Slice{a.res, b.res}, want, anc) {
			return
		}
		if !readAll("after-derive") {
			return
		}
		if nodes[len(nodes)-1].own != ([nCounters]int64{}) {
			nonzero++
		}
	}
	if !readAll("end") {
		return
	}
	t.Count("chains", 1)
	if len(nodes) >= 2 && nonzero > 0 && nodes[0].own != ([nCounters]int64{}) {
		t.Nontrivial("")
	}
}

func runC20chains(r *vf.Runner) {
	rnd := r.Rand("chains")
	n := 24
	if !r.Quick() {
		n = 400
	}
	ops := []string{"map", "map", "filter", "flatmap", "fold", "reduce", "cogroup", "reshuffle", "repartition", "reshard", "prefixed", "mapkv"}
	for i := 0; i < n; i++ {
		conf := localP4
		if i%2 == 1 {
			conf = bm2
		}
		fr := rnd.Fork()
		r.CaseLazy(func() interface{} { return genC20chain(fr, conf, ops) }, func(t *vf.T, c interface{}) { runC20chain(t, c.(c20chain)) })
	}
}

func genC20chain(rnd *vf.Rand, conf sessConf, ops []string) c20chain {
	c := c20chain{Conf: conf}
	baseOpts := genOpts{MaxOps: 3, Sources: []string{"const", "readerfunc"}, Ops: ops, NoWeakHead: true, NoScan: true, MaxRows: 200, Ctx: true}
	for tries := 0; tries < 20; tries++ {
		c.Base = genSpec(rnd.Fork(), baseOpts)
		if w, _, err := evalSpec(&c.Base, nil); err == nil && !w.Weak && len(w.Kinds) > 0 && hasCtx(&c.Base) {
			break
		}
	}
	want0, _, err := evalSpec(&c.Base, nil)
	if err != nil {
		return c
	}
	rels := []*rel{want0}
	for i, n := 0, 1+rnd.Intn(3); i < n; i++ {
		a, b := rnd.Intn(len(rels)), rnd.Intn(len(rels))
		o := genOpts{MaxOps: 3, Sources: []string{"arg"}, Ops: ops, ArgRels: []*rel{rels[a], rels[b]}, NoWeakHead: true, NoScan: true, Ctx: true}
		for tries := 0; tries < 10; tries++ {
			sp := genSpec(rnd.Fork(), o)
			w, _, err := evalSpec(&sp, []*rel{rels[a], rels[b]})
			if err == nil && len(sp.Nodes) >= 2 && len(w.Kinds) > 0 && !w.Weak {
				c.Steps = append(c.Steps, c20link{R: a, R2: b, Spec: sp, ReadFirst: rnd.Chance(0.6), Discard: rnd.Chance(0.4)})
				rels = append(rels, w)
				break
			}
		}
	}
	return c
}

func hasCtx(sp *Spec) bool {
	for _, n := range sp.Nodes {
		if n.Ctx {
			return true
		}
	}
	return false
}

// c20drop: the reply of the k-th Worker.Run is lost on the way to the driver (the worker has run
// the task and recorded its metrics; no machine fails). The call is retried and answered by the
// worker from the task it already completed: the scope that arrives must still carry the task's
// counters.
type c20drop struct {
	Spec    Spec `json:"spec"`
	Ordinal int  `json:"ordinal"`
}

func runC20drop(t *vf.T, pool *sessionPool, c c20drop) {
	want, _, err := evalSpec(&c.Spec, nil)
	if err != nil || want.Weak {
		return
	}
	// reference counters: a failure-free run of the same (deterministic) program
	ref := c.Spec
	ref.Run = fmt.Sprintf("c20d-%d-ref", t.Index())
	defer probes.Delete(ref.Run)
	lsr := pool.get(bm2)
	o := runSpec(lsr, ref, [2]bigslice.Slice{}, true, 120*time.Second)
	if o.TimedOut || o.RunErr != nil || o.ScanErr != nil || o.Panic != nil {
		t.Inconclusive(fmt.Sprintf("reference run: %v %v %v", o.RunErr, o.ScanErr, o.Panic))
		pool.drop(bm2)
		return
	}
	refCtrs := counterValues(o.Res)
	o.Res.Discard(bgctx)
	ls := startSession(bm2, ipAction{Method: "Worker.Run", Ordinal: c.Ordinal, When: "after", What: "drop-reply"})
	defer ls.Close()
	sp := c.Spec
	sp.Run = fmt.Sprintf("c20d-%d", t.Index())
	defer probes.Delete(sp.Run)
	out := runSpec(ls, sp, [2]bigslice.Slice{}, true, 120*time.Second)
	dropped := atomic.LoadInt64(&ls.IP.dropped)
	switch {
	case out.TimedOut:
		t.Inconclusive("watchdog")
		return
	case out.Panic != nil:
		t.Violate("drop-reply panic:"+out.PanicAt, fmt.Sprint(out.Panic))
		return
	case out.RunErr != nil || out.ScanErr != nil:
		// a lost reply may legitimately fail the run; the counters of a failed run are not judged
		t.Count("drop_reply_runs_failed", 1)
		return
	}
	if d := compareResult(out.Rows, want); d != "" {
		t.Violate("drop-reply rows-differ", d)
		return
	}
	got := counterValues(out.Res)
	if got != refCtrs {
		t.Violate(fmt.Sprintf("drop-reply counters-differ dropped=%v", dropped > 0), fmt.Sprintf("the reply of Worker.Run #%d was dropped (%d dropped) and the call retried; the result reports %v, a failure-free run of the same program %v | %s", c.Ordinal, dropped, got, refCtrs, specString(&c.Spec)))
		return
	}
	t.Count("drop_reply_runs", 1)
	if dropped > 0 && refCtrs != ([nCounters]int64{}) {
		t.Count("replies_dropped_after_the_task_had_run", dropped)
		t.Nontrivial("")
	}
}

func runC20drops(r *vf.Runner) {
	pool := &sessionPool{}
	defer pool.closeAll()
	progs := []Spec{
		{Nodes: []PNode{{Op: "readerfunc", Shards: 3, Rows: 60, Out: []string{"int", "string"}, Salt: 5, Mod: 20, Chunks: []int{25}}, {Op: "map", In: []int{0}, Out: []string{"int", "int64"}, Src: []int{0, -1}, Salt: 2, Mod: 9, Ctx: true}, {Op: "filter", In: []int{1}, P: 3, Salt: 1, Ctx: true}}},
		{Nodes: []PNode{{Op: "const", Shards: 2, Rows: 90, Out: []string{"int", "int64"}, Salt: 6, Mod: 15}, {Op: "map", In: []int{0}, Out: []string{"int", "int64"}, Src: []int{0, 1}, Salt: 3, Ctx: true}, {Op: "reduce", In: []int{1}, Fold: "sum"}, {Op: "filter", In: []int{2}, P: 4, Salt: 2, Ctx: true}}},
	}
	maxOrd := 8
	for pi, p := range progs {
		for k := 0; k < maxOrd; k++ {
			if r.Quick() && (k+pi)%2 == 1 {
				continue
			}
			c := c20drop{Spec: p, Ordinal: k}
			r.Case(c, func(t *vf.T) { runC20drop(t, pool, c) })
		}
	}
}
