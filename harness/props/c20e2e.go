package props

import "verifharness/internal/vf"

// runC20e2e: for failure-free runs on both executors, Counter.Value(result.Scope()) must equal
// the increments the user functions performed (counted independently by the recorder). The
// comparison itself is shared with C04 (runC04case: "counters-differ-from-increments").
func runC20e2e(r *vf.Runner) {
	pool := &sessionPool{}
	defer pool.closeAll()
	rnd := r.Rand("e2e")
	n := 30
	if !r.Quick() {
		n = 600
	}
	// no early-terminating consumers: how far a Head pulls its upstream depends on the vector size
	ops := []string{"map", "map", "filter", "flatmap", "fold", "reduce", "cogroup", "reshuffle", "repartition", "reshard", "prefixed", "writerfunc", "mapkv"}
	opts := genOpts{MaxOps: 6, Sources: []string{"const", "readerfunc"}, Ops: ops, NoWeakHead: true, NoScan: true, Ctx: true}
	for i := 0; i < n; i++ {
		c := c04case{Spec: genSpec(rnd.Fork(), opts)}
		c.Confs = []execConf{defaultExec(localP4), defaultExec(bm2)}
		if i%3 == 0 {
			c.Confs = append(c.Confs, defaultExec(sessConf{Kind: "bigmachine", P: 2, MachProcs: 1, MaxLoad: 0.95}))
		}
		r.Case(c, func(t *vf.T) { runC04case(t, pool, c) })
	}
}
