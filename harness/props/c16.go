package props

import (
	"encoding/gob"
	"fmt"
	"os"
	"reflect"
	"sort"
	"strings"
	"sync/atomic"
	"time"

	"github.com/grailbio/bigslice"
	"github.com/grailbio/bigslice/exec"
	"verifharness/internal/vf"
)

// C16 — invocations reach workers intact, and registry or argument problems fail fast.

func init() {
	Registry["C16"] = runC16
	// encoding/gob names a registered type after its base type, so a type can be registered as T or
	// as *T but not both; interface-held pointers use a type of their own (ArgNode).
	for _, v := range []interface{}{ArgStruct{}, &ArgNode{}, []string{}, map[string]int{}} {
		func() {
			defer func() { recover() }() // some basic types are pre-registered by encoding/gob
			gob.Register(v)
		}()
	}
}

// ArgStruct is a struct-typed Func argument.
type ArgStruct struct {
	N    int
	S    string
	L    []int64
	M    map[string]string
	Next *ArgStruct
}

// ArgNode is only ever passed by pointer inside interface-typed arguments.
type ArgNode struct {
	N    int
	Next *ArgNode
}

func descVal(v interface{}) string {
	if v == nil {
		return "nil"
	}
	rv := reflect.ValueOf(v)
	switch rv.Kind() {
	case reflect.Ptr:
		if rv.IsNil() {
			return rv.Type().String() + "(nil)"
		}
		return "&" + descVal(rv.Elem().Interface())
	case reflect.Slice:
		// gob does not distinguish nil from empty
		parts := make([]string, rv.Len())
		for i := range parts {
			parts[i] = descVal(rv.Index(i).Interface())
		}
		return rv.Type().String() + "[" + strings.Join(parts, ",") + "]"
	case reflect.Map:
		var parts []string
		for _, k := range rv.MapKeys() {
			parts = append(parts, descVal(k.Interface())+":"+descVal(rv.MapIndex(k).Interface()))
		}
		sort.Strings(parts)
		return rv.Type().String() + "{" + strings.Join(parts, ",") + "}"
	case reflect.Struct:
		var parts []string
		for i := 0; i < rv.NumField(); i++ {
			parts = append(parts, rv.Type().Field(i).Name+"="+descVal(rv.Field(i).Interface()))
		}
		return rv.Type().String() + "{" + strings.Join(parts, " ") + "}"
	case reflect.String:
		return fmt.Sprintf("%q", rv.String())
	}
	return fmt.Sprintf("%s(%v)", rv.Type(), v)
}

func descArgs(a int, s string, f float64, xs []int, m map[string]int, st ArgStruct, p *ArgStruct, i, j interface{}) string {
	return strings.Join([]string{descVal(a), descVal(s), descVal(f), descVal(xs), descVal(m), descVal(st), descVal(p), "i=" + descVal(i), "j=" + descVal(j)}, " ; ")
}

// ArgFunc's result carries a description of the arguments as seen by the process that invoked
// it: on the distributed executor the rows are produced from the worker's invocation.
var ArgFunc = bigslice.Func(func(a int, s string, f float64, xs []int, m map[string]int, st ArgStruct, p *ArgStruct, i, j interface{}, r bigslice.Slice) bigslice.Slice {
	d := descArgs(a, s, f, xs, m, st, p, i, j)
	if r != nil {
		return bigslice.Map(r, func(k int, v string) (int, string) { return k, v + "|" + d })
	}
	return bigslice.Const(2, []int{1, 2, 3}, []string{d, d, d})
})

// ArgBase produces the Result handed to ArgFunc as a nested Result argument.
var ArgBase = bigslice.Func(func(n int) bigslice.Slice {
	ks, vs := make([]int, n), make([]string, n)
	for i := range ks {
		ks[i], vs[i] = i, fmt.Sprintf("v%d", i)
	}
	return bigslice.Reshuffle(bigslice.Const(3, ks, vs))
})

// AnyFunc takes an interface-typed argument (used for unencodable values).
var AnyFunc = bigslice.Func(func(x interface{}) bigslice.Slice {
	return bigslice.Const(1, []int{1, 2})
})

// PassFunc returns its Result argument unchanged: it has no tasks of its own, so its other
// argument is not encoded until a later invocation that consumes its Result is sent to a worker.
var PassFunc = bigslice.Func(func(r bigslice.Slice, x interface{}) bigslice.Slice { return r })

// ConsumeFunc runs tasks over its argument.
var ConsumeFunc = bigslice.Func(func(r bigslice.Slice) bigslice.Slice {
	return bigslice.Map(r, func(k int, v string) (int, string) { return k, v })
})

type unexportedOnly struct{ a, b int }

type c16args struct {
	A  int
	S  string
	F  float64
	Xs []int
	M  map[string]int
	St ArgStruct
	P  *ArgStruct
	I  string // which value the interface parameters hold (by name)
	J  string
	R  bool // pass a Result
}

func ifaceVal(name string) interface{} {
	switch name {
	case "nil":
		return nil
	case "int":
		return 42
	case "string":
		return "an interface-held string"
	case "struct":
		return ArgStruct{N: 7, S: "in-iface", L: []int64{1, 2}}
	case "ptr":
		return &ArgNode{N: 8, Next: &ArgNode{N: 9}}
	case "nilptr":
		// a typed nil pointer held in an interface: gob cannot encode it, so the run may be
		// rejected - but it must never arrive as a different value (an untyped nil)
		return (*ArgNode)(nil)
	case "strings":
		return []string{"x", "", "z"}
	case "map":
		return map[string]int{"k": 1, "": 2}
	}
	panic(name)
}

var ifaceNames = []string{"nil", "int", "string", "struct", "ptr", "strings", "map"}

func genC16args(rnd *vf.Rand) c16args {
	c := c16args{A: []int{0, -1, 1 << 40, 7}[rnd.Intn(4)], S: []string{"", "a\x00b", strings.Repeat("long", 300), "Ünï"}[rnd.Intn(4)],
		F: []float64{0, -1.5, 1e300}[rnd.Intn(3)], I: ifaceNames[rnd.Intn(len(ifaceNames))], J: ifaceNames[rnd.Intn(len(ifaceNames))], R: rnd.Chance(0.4)}
	switch rnd.Intn(3) {
	case 1:
		c.Xs = []int{}
	case 2:
		c.Xs = []int{3, -4, 5}
	}
	switch rnd.Intn(3) {
	case 1:
		c.M = map[string]int{}
	case 2:
		c.M = map[string]int{"a": 1, "b": -2}
	}
	if rnd.Bool() {
		c.St = ArgStruct{N: rnd.Intn(9), S: "s", L: []int64{1}, M: map[string]string{"x": "y"}, Next: &ArgStruct{N: 1}}
	}
	if rnd.Bool() {
		c.P = &ArgStruct{N: 5, S: "ptr"}
	}
	return c
}

func runC16e2e(t *vf.T, pool *sessionPool, c c16args, conf sessConf) {
	ls := pool.get(conf)
	var r interface{}
	var baseRows []row
	if c.R {
		res, err := ls.Sess.Run(bgctx, ArgBase, 9)
		if err != nil {
			t.Inconclusive("base run: " + err.Error())
			return
		}
		baseRows, _ = scanRows(bgctx, res)
		r = res
	}
	i, j := ifaceVal(c.I), ifaceVal(c.J)
	want := descArgs(c.A, c.S, c.F, c.Xs, c.M, c.St, c.P, i, j)
	done := make(chan struct{})
	var res *exec.Result
	var err error
	var rows []row
	go func() {
		defer close(done)
		defer func() {
			if e := recover(); e != nil {
				err = fmt.Errorf("panic: %v", e)
			}
		}()
		res, err = ls.Sess.Run(bgctx, ArgFunc, c.A, c.S, c.F, c.Xs, c.M, c.St, c.P, i, j, r)
		if err == nil {
			rows, err = scanRows(bgctx, res)
		}
	}()
	select {
	case <-done:
	case <-time.After(120 * time.Second):
		atomic.AddInt32(&ls.failedRuns, 1)
		t.Inconclusive("watchdog")
		pool.drop(conf)
		return
	}
	sig := "args exec=" + conf.Kind
	if err != nil && (c.I == "nilptr" || c.J == "nilptr") {
		atomic.AddInt32(&ls.failedRuns, 1)
		pool.drop(conf)
		t.Count("typed_nil_in_interface_rejected", 1)
		t.Nontrivial("")
		return
	}
	if err != nil {
		atomic.AddInt32(&ls.failedRuns, 1)
		t.Violate(sig+" run-failed iface="+c.I+"/"+c.J, fmt.Sprintf("Run with encodable arguments failed: %v", err))
		pool.drop(conf)
		return
	}
	var wantRows []string
	if c.R {
		for _, br := range baseRows {
			wantRows = append(wantRows, fmt.Sprintf("%v|%s|%s", br[0], br[1], want))
		}
	} else {
		for k := 1; k <= 3; k++ {
			wantRows = append(wantRows, fmt.Sprintf("%d|%s", k, want))
		}
	}
	var gotRows []string
	for _, rw := range rows {
		gotRows = append(gotRows, fmt.Sprintf("%v|%s", rw[0], rw[1]))
	}
	sort.Strings(wantRows)
	sort.Strings(gotRows)
	if strings.Join(gotRows, "\n") != strings.Join(wantRows, "\n") {
		a, b := "", ""
		for k := 0; k < len(gotRows) && k < len(wantRows); k++ {
			if gotRows[k] != wantRows[k] {
				a, b = gotRows[k], wantRows[k]
				break
			}
		}
		t.Violate(sig+" arguments-differ-at-worker iface="+c.I+"/"+c.J, fmt.Sprintf("%d rows vs %d expected; the process that ran the tasks saw:\n  %.600s\nthe driver passed:\n  %.600s", len(gotRows), len(wantRows), a, b))
		return
	}
	res.Discard(bgctx)
	t.Count("e2e_invocations", 1)
	if c.R {
		t.Count("e2e_with_result_argument", 1)
	}
	t.Nontrivial("")
}

func runC16codec(t *vf.T, c c16args) {
	i, j := ifaceVal(c.I), ifaceVal(c.J)
	inv := exec.VerifMakeInvocation(ArgFunc, c.A, c.S, c.F, c.Xs, c.M, c.St, c.P, i, j, nil)
	enc, err := inv.Encode()
	if err != nil && (c.I == "nilptr" || c.J == "nilptr") {
		t.Count("typed_nil_in_interface_rejected", 1)
		t.Nontrivial("")
		return
	}
	if err != nil {
		t.Violate("codec encode-error", err.Error())
		return
	}
	dec, err := exec.VerifDecodeInvocation(enc, nil)
	if err != nil {
		t.Violate("codec decode-error", err.Error())
		return
	}
	a, b := inv.Args(), dec.Args()
	if len(a) != len(b) {
		t.Violate("codec arity", fmt.Sprintf("%d vs %d arguments", len(a), len(b)))
		return
	}
	for k := range a {
		if descVal(a[k]) != descVal(b[k]) {
			t.Violate(fmt.Sprintf("codec argument-%d-differs", k), fmt.Sprintf("sent %s, received %s", descVal(a[k]), descVal(b[k])))
			return
		}
	}
	if dec.Index() != inv.Index() {
		t.Violate("codec index", "invocation index changed in transport")
	}
	t.Count("arg_lists_roundtripped", 1)
	t.Nontrivial("")
}

func runC16unencodable(t *vf.T, name string, v interface{}, conf sessConf) {
	ls := startSession(conf)
	atomic.AddInt32(&ls.failedRuns, 1) // the run is expected to fail: see liveSession.Close
	defer ls.Close()
	done := make(chan struct{})
	var err error
	mark := logMark()
	t0 := time.Now()
	go func() {
		defer close(done)
		defer func() {
			if e := recover(); e != nil {
				err = fmt.Errorf("panic: %v", e)
			}
		}()
		_, err = ls.Sess.Run(bgctx, AnyFunc, v)
	}()
	for i := 0; ; i++ {
		select {
		case <-done:
		case <-time.After(100 * time.Millisecond):
			// decided on what the evaluator does, not on elapsed time: a task treated as lost and
			// resubmitted is a retry; the watchdog alone is inconclusive
			if n := logCountSince(mark, "evaluator: resubmitting lost task"); n > 0 {
				t.Violate("unencodable "+name+" retried", fmt.Sprintf("a task of an invocation whose argument cannot be encoded was resubmitted as lost (%d times so far) | library log: %s", n, logTail(8)))
				return
			}
			if i > 1200 {
				runs := ls.IP.count("Worker.Run") + ls.IP.count("Worker.Compile")
				t.Inconclusive(fmt.Sprintf("watchdog: Run with an unencodable %s argument had not returned after 120 s (%d Worker.Compile/Run RPCs so far)", name, runs))
				return
			}
			continue
		}
		break
	}
	_ = t0
	if err == nil {
		t.Violate("unencodable "+name+" run-succeeded", "Run with an unencodable argument succeeded on the distributed executor")
		return
	}
	if n := ls.IP.count("Worker.Run"); n > 0 {
		t.Violate("unencodable "+name+" tasks-were-run", fmt.Sprintf("%d Worker.Run RPCs were issued although the invocation cannot be encoded", n))
		return
	}
	t.Count("unencodable_rejected", 1)
	t.Seen("unencodable_kinds", name)
	t.Nontrivial("")
}

// runC16lazy: the unencodable value is an argument of an invocation that runs no tasks itself
// (PassFunc); its encoding is first attempted when a later invocation over its Result is compiled
// for a worker. That failure, too, must be a prompt fatal error: no task is run, none is
// resubmitted as lost.
func runC16lazy(t *vf.T, name string, v interface{}, conf sessConf) {
	ls := startSession(conf)
	atomic.AddInt32(&ls.failedRuns, 1) // a run is expected to fail: see liveSession.Close
	defer ls.Close()
	base, err := ls.Sess.Run(bgctx, ArgBase, 9)
	if err != nil {
		t.Inconclusive("base run: " + err.Error())
		return
	}
	pass, err := ls.Sess.Run(bgctx, PassFunc, base, v)
	if err != nil {
		// rejected early: also prompt
		t.Count("unencodable_rejected", 1)
		t.Count("unencodable_lazy_rejected_at_pass", 1)
		t.Nontrivial("")
		return
	}
	mark := logMark()
	runs0 := ls.IP.count("Worker.Run")
	done := make(chan struct{})
	go func() {
		defer close(done)
		defer func() {
			if e := recover(); e != nil {
				err = fmt.Errorf("panic: %v", e)
			}
		}()
		_, err = ls.Sess.Run(bgctx, ConsumeFunc, pass)
	}()
	sig := "unencodable-lazy " + name
	for i := 0; ; i++ {
		select {
		case <-done:
		case <-time.After(100 * time.Millisecond):
			if n := logCountSince(mark, "evaluator: resubmitting lost task"); n > 0 {
				t.Violate(sig+" retried", fmt.Sprintf("a task of an invocation whose arguments cannot be encoded was treated as lost and resubmitted (%d resubmissions so far) instead of failing the run | library log: %s", n, logTail(8)))
				return
			}
			if i > 1200 {
				t.Inconclusive("watchdog: Run over the Result of an invocation with an unencodable argument had not returned after 120 s")
				return
			}
			continue
		}
		break
	}
	if err == nil {
		t.Violate(sig+" run-succeeded", "Run over the Result of an invocation with an unencodable argument succeeded on the distributed executor")
		return
	}
	if n := logCountSince(mark, "evaluator: resubmitting lost task"); n > 0 {
		t.Violate(sig+" retried", fmt.Sprintf("tasks were resubmitted as lost %d times before Run failed: %v", n, err))
		return
	}
	if n := ls.IP.count("Worker.Run") - runs0; n > 0 {
		t.Violate(sig+" tasks-were-run", fmt.Sprintf("%d Worker.Run RPCs were issued although the invocation cannot be encoded", n))
		return
	}
	t.Count("unencodable_rejected", 1)
	t.Count("unencodable_lazy_rejected_at_compile", 1)
	t.Nontrivial("")
}

// applyDiff applies the edit script to lhs: drop "- " lines, keep plain lines, insert "+ " lines.
func applyDiff(lhs, diff []string) ([]string, bool) {
	var out []string
	i := 0
	for _, d := range diff {
		switch {
		case strings.HasPrefix(d, "+ "):
			out = append(out, d[2:])
		case strings.HasPrefix(d, "- "):
			if i >= len(lhs) || lhs[i] != d[2:] {
				return nil, false
			}
			i++
		default:
			if i >= len(lhs) || lhs[i] != d {
				return nil, false
			}
			out = append(out, d)
			i++
		}
	}
	return out, i == len(lhs)
}

func runC16diff(t *vf.T, maxLen int, firstLen int) {
	alpha := []string{"a.go:1", "b.go:2", "c.go:3"}
	var lists [][]string
	var rec func(cur []string)
	rec = func(cur []string) {
		lists = append(lists, append([]string{}, cur...))
		if len(cur) == maxLen {
			return
		}
		for _, a := range alpha {
			rec(append(cur, a))
		}
	}
	rec(nil)
	pairs := int64(0)
	for _, l := range lists {
		if len(l) != firstLen {
			continue
		}
		for _, r := range lists {
			pairs++
			d := bigslice.FuncLocationsDiff(l, r)
			eq := reflect.DeepEqual(l, r) || (len(l) == 0 && len(r) == 0)
			if eq != (d == nil) {
				t.Violate(fmt.Sprintf("diff empty=%v equal=%v", d == nil, eq), fmt.Sprintf("FuncLocationsDiff(%v, %v) = %v", l, r, d))
				return
			}
			if d != nil {
				got, ok := applyDiff(l, d)
				if !ok || !reflect.DeepEqual(got, r) && !(len(got) == 0 && len(r) == 0) {
					t.Violate("diff script-does-not-transform", fmt.Sprintf("FuncLocationsDiff(%v, %v) = %v, which applied to the first list gives %v (consistent: %v)", l, r, d, got, ok))
					return
				}
			}
		}
	}
	t.Count("location_list_pairs_diffed", pairs)
	t.Nontrivial("")
}

// runC16registry checks what the location comparison works on: the list a process reports for its
// own registry. Every Func of this harness is created on a source line of its own, so the entries
// must be pairwise distinct and each must name the line of its bigslice.Func call; a registry that
// holds the same Funcs in another order must then be told apart by the diff.
func runC16registry(t *vf.T) {
	locs := bigslice.FuncLocations()
	if len(locs) < 6 {
		t.Violate("registry too-short", fmt.Sprintf("FuncLocations reports %d entries; this process registered at least 6 Funcs", len(locs)))
		return
	}
	seen := map[string]int{}
	for i, l := range locs {
		if j, ok := seen[l]; ok {
			t.Violate("registry location-not-the-definition-site", fmt.Sprintf("Funcs %d and %d, created on different source lines, both report the location %s", j, i, l))
			return
		}
		seen[l] = i
		k := strings.LastIndex(l, ":")
		if k < 0 {
			t.Violate("registry location-malformed", l)
			return
		}
		var line int
		fmt.Sscanf(l[k+1:], "%d", &line)
		src, err := os.ReadFile(l[:k])
		if err != nil {
			t.Count("registry_locations_whose_source_could_not_be_read", 1)
			continue
		}
		lines := strings.Split(string(src), "\n")
		if line < 1 || line > len(lines) || !strings.Contains(lines[line-1], "bigslice.Func(") {
			t.Violate("registry location-not-the-definition-site", fmt.Sprintf("Func %d reports the location %s, which is not the line of its bigslice.Func call", i, l))
			return
		}
		t.Count("registry_locations_checked_against_source", 1)
	}
	// the same Funcs registered in another order: every transposition must be detected
	for i := 0; i < len(locs); i++ {
		for j := i + 1; j < len(locs); j++ {
			other := append([]string{}, locs...)
			other[i], other[j] = other[j], other[i]
			if d := bigslice.FuncLocationsDiff(locs, other); len(d) == 0 {
				t.Violate("registry reordering-not-detected", fmt.Sprintf("the registry with Funcs %d and %d exchanged is reported as identical", i, j))
				return
			}
			t.Count("registry_reorderings_detected", 1)
		}
	}
	t.Nontrivial("")
}

func runC16(r *vf.Runner) {
	pool := &sessionPool{}
	defer pool.closeAll()
	rnd := r.Rand("c16")
	r.Case(map[string]any{"kind": "registry"}, func(t *vf.T) { runC16registry(t) })
	n, ne := 200, 24
	if !r.Quick() {
		n, ne = 5000, 400
	}
	for i := 0; i < n; i++ {
		c := genC16args(rnd.Fork())
		r.Case(map[string]any{"kind": "codec", "args": c}, func(t *vf.T) { runC16codec(t, c) })
	}
	for i := 0; i < ne; i++ {
		c := genC16args(rnd.Fork())
		conf := bm2
		if i%4 == 3 {
			conf = localP4
		}
		r.Case(map[string]any{"kind": "e2e", "args": c, "conf": conf}, func(t *vf.T) { runC16e2e(t, pool, c, conf) })
	}
	// a typed nil pointer in an interface-typed parameter, alone and next to other values
	for k, other := range []string{"nil", "int", "ptr", "nilptr"} {
		for _, first := range []bool{true, false} {
			c := genC16args(vf.NewRand(uint64(77 + k)))
			c.I, c.J = "nilptr", other
			if !first {
				c.I, c.J = other, "nilptr"
			}
			c.R = k%2 == 0
			r.Case(map[string]any{"kind": "codec", "args": c}, func(t *vf.T) { runC16codec(t, c) })
			for _, conf := range []sessConf{bm2, localP4} {
				conf := conf
				r.Case(map[string]any{"kind": "e2e", "args": c, "conf": conf}, func(t *vf.T) { runC16e2e(t, pool, c, conf) })
			}
		}
	}
	for _, u := range []struct {
		name string
		v    interface{}
	}{{"chan", make(chan int)}, {"func", func() {}}, {"unexported-only-struct", unexportedOnly{1, 2}}, {"struct-with-chan", struct{ C chan int }{make(chan int)}}} {
		u := u
		r.Case(map[string]any{"kind": "unencodable", "value": u.name}, func(t *vf.T) { runC16unencodable(t, u.name, u.v, bm2) })
		r.Case(map[string]any{"kind": "unencodable-lazy", "value": u.name}, func(t *vf.T) { runC16lazy(t, u.name, u.v, bm2) })
	}
	for gi, g := range genC16graphs(r.Quick()) {
		g := g
		g.Fresh = "scale"
		r.Case(map[string]any{"kind": "graph", "graph": g}, func(t *vf.T) { runC16graph(t, g) })
		if !r.Quick() || gi%4 == 1 {
			g.Fresh = "kill"
			r.Case(map[string]any{"kind": "graph", "graph": g}, func(t *vf.T) { runC16graph(t, g) })
		}
	}
	maxLen := 4
	if !r.Quick() {
		maxLen = 5
	}
	for fl := 0; fl <= maxLen; fl++ {
		fl := fl
		r.Case(map[string]any{"kind": "diff", "maxlen": maxLen, "first_list_len": fl}, func(t *vf.T) { runC16diff(t, maxLen, fl) })
	}
}

// c16graph: a graph of Results that feed later Funcs, the last of which is evaluated on workers
// that have compiled none of the earlier invocations (machines started for its extra shards, or
// replacements for machines killed just before). Such a worker is sent the invocation together
// with every invocation its Result arguments came from, and must be able to resolve each one.
type c16graph struct {
	Links [][2]int `json:"links"` // link i is a Func over results Links[i][0] and Links[i][1] (0 is the base)
	Fresh string   `json:"fresh"` // scale: the last Func has more shards than machines are running; kill: every machine is killed before it
}

func runC16graph(t *vf.T, c c16graph) {
	conf := sessConf{Kind: "bigmachine", P: 6, MachProcs: 1, MaxLoad: 0.95, Keepalive: 50}
	ls := startSession(conf)
	defer ls.Close()
	run := fmt.Sprintf("c16g-%d", t.Index())
	defer func() {
		probes.Range(func(k, _ any) bool {
			if strings.HasPrefix(k.(string), run) {
				probes.Delete(k)
			}
			return true
		})
	}()
	sig := fmt.Sprintf("graph fresh=%s", c.Fresh)
	base := Spec{Run: run + "-base", Nodes: []PNode{{Op: "const", Shards: 1, Rows: 40, Out: []string{"int", "int64"}, Salt: 3, Mod: 10}}}
	want0, _, err := evalSpec(&base, nil)
	if err != nil {
		t.Inconclusive("reference evaluator: " + err.Error())
		return
	}
	o := runSpec(ls, base, [2]bigslice.Slice{}, true, 120*time.Second)
	if o.TimedOut || o.RunErr != nil || o.ScanErr != nil || o.Panic != nil {
		t.Inconclusive(fmt.Sprintf("base run: timeout=%v run=%v scan=%v panic=%v", o.TimedOut, o.RunErr, o.ScanErr, o.Panic))
		return
	}
	results := []*exec.Result{o.Res}
	rels := []*rel{want0}
	for i, l := range c.Links {
		top := i == len(c.Links)-1
		sp := Spec{Run: fmt.Sprintf("%s-l%d", run, i), Nodes: []PNode{
			{Op: "arg", Arg: 0}, {Op: "arg", Arg: 1},
			{Op: "cogroup", In: []int{0, 1}},
			{Op: "map", In: []int{2}, Out: []string{"int", "int64"}, Src: []int{0, -1}, Mod: 7, Salt: uint64(11 + i)},
		}}
		if top {
			sp.Nodes = append(sp.Nodes, PNode{Op: "reshard", In: []int{3}, Shards: 6})
		}
		want, _, err := evalSpec(&sp, []*rel{rels[l[0]], rels[l[1]]})
		if err != nil {
			t.Inconclusive("reference evaluator: " + err.Error())
			return
		}
		killed := 0
		if top && c.Fresh == "kill" {
			for k := 0; k < 20 && ls.killRunning(); k++ {
				killed++
			}
			t.Count("graph_machines_killed", int64(killed))
		}
		compiles := ls.IP.count("Worker.Compile")
		o := runSpec(ls, sp, [2]bigslice.Slice{results[l[0]], results[l[1]]}, true, 120*time.Second)
		switch {
		case o.TimedOut:
			t.Inconclusive("watchdog in a graph run")
			return
		case o.Panic != nil:
			t.Violate(sig+" panic:"+o.PanicAt, fmt.Sprintf("%v", o.Panic))
			return
		case o.RunErr != nil || o.ScanErr != nil:
			e := o.RunErr
			if e == nil {
				e = o.ScanErr
			}
			if killed > 0 && isGiveUp(e) {
				t.Count("graph_give_ups_after_kill", 1)
				return
			}
			if ls.lossesNotCausedByMonitor(killed, true) {
				// a live machine's keepalive timed out (starved host): an error is acceptable
				t.Count("graph_runs_with_machine_losses_not_caused_by_the_monitor", 1)
				return
			}
			t.Violate(sig+" run-failed", fmt.Sprintf("Func %d over results %v of the graph %v failed: %v | library log: %s", i+1, l, c.Links, e, logTail(12)))
			return
		}
		if d := compareResult(o.Rows, want); d != "" {
			t.Violate(sig+" rows-differ", fmt.Sprintf("Func %d over results %v of the graph %v: %s", i+1, l, c.Links, d))
			return
		}
		if top {
			t.Count("graph_compile_rpcs_for_last_func", int64(ls.IP.count("Worker.Compile")-compiles))
		}
		results = append(results, o.Res)
		rels = append(rels, want)
	}
	t.Count("result_graphs_evaluated_on_fresh_workers", 1)
	t.Nontrivial("")
}

func genC16graphs(quick bool) (out []c16graph) {
	var rec func(links [][2]int, n int)
	rec = func(links [][2]int, n int) {
		if len(links) == n {
			out = append(out, c16graph{Links: append([][2]int{}, links...)})
			return
		}
		k := len(links) + 1 // results available: 0..k-1
		for a := 0; a < k; a++ {
			for b := 0; b < k; b++ {
				rec(append(links, [2]int{a, b}), n)
			}
		}
	}
	rec(nil, 2)
	rec(nil, 3)
	if !quick {
		rec(nil, 4)
	}
	return
}
