package props

import (
	"context"
	"fmt"
	"os"
	"path/filepath"
	"sort"
	"strings"
	"sync/atomic"
	"time"

	"github.com/grailbio/base/compress/zstd"
	"github.com/grailbio/base/file"
	"github.com/grailbio/bigslice"
	"github.com/grailbio/bigslice/sliceio"
	"verifharness/internal/vf"
)

// C13 — caching is transparent, complete-or-absent, and skips recomputation.

func init() { Registry["C13"] = runC13 }

type c13case struct {
	Conf     sessConf `json:"conf"`
	Kind     string   `json:"kind"`     // cache | cachepartial
	Position string   `json:"position"` // head middle under-prefixed after-selective-filter after-materialize before-shuffle after-shuffle under-head
	Shards   int      `json:"shards"`
	Rows     int      `json:"rows"`
	Present  int      `json:"present"` // bitmask of shard files present before the second run
	FailAt   int      `json:"failat"`  // fault at this file operation ordinal of the first run (-1: none)
	FailOp   string   `json:"failop,omitempty"`
	Short    bool     `json:"shortwrite,omitempty"`
	From     bool     `json:"persistentfault,omitempty"` // every matching operation from FailAt on fails
	UserFail int      `json:"userfail"`                  // >=0: the source fails at this call in the first run
	Seed     uint64   `json:"seed"`
}

// c13program: readerfunc -> map -> [CACHE] -> ... ; returns the spec, the cache node index.
func c13program(c c13case, dir string) (Spec, int) {
	// the source ends its shards either with a separate (0, EOF) call or with rows returned
	// together with EOF, by shard count
	chunks := []int{50, 3}
	if c.Shards%2 == 0 {
		chunks = []int{40, -1 << 20}
	}
	src := PNode{Op: "readerfunc", Shards: c.Shards, Rows: c.Rows, Out: []string{"int", "string"}, Salt: c.Seed, Mod: 30, Chunks: chunks}
	// the map counts its rows in a user metric (read back from the result's scope after the second run)
	mp := PNode{Op: "map", In: []int{0}, Out: []string{"int", "int64"}, Src: []int{0, -1}, Salt: c.Seed + 1, Mod: 7, Ctx: true}
	cache := PNode{Op: c.Kind, Path: "vfault://" + dir + "/c"}
	nodes := []PNode{src}
	ci := 0
	switch c.Position {
	case "head":
		cache.In = []int{0}
		nodes = append(nodes, cache)
		ci = 1
		mp.In = []int{1}
		nodes = append(nodes, mp)
	case "middle":
		nodes = append(nodes, mp)
		cache.In = []int{1}
		nodes = append(nodes, cache)
		ci = 2
		nodes = append(nodes, PNode{Op: "filter", In: []int{2}, P: 3, Salt: 2})
	case "after-selective-filter":
		// every shard is empty at the cache operator (the filter keeps nothing): an empty shard is still a shard, with a file
		nodes = append(nodes, PNode{Op: "filter", In: []int{0}, P: 1, Salt: c.Seed + 5})
		cache.In = []int{1}
		nodes = append(nodes, cache)
		ci = 2
		mp.In = []int{2}
		nodes = append(nodes, mp)
	case "under-prefixed":
		// the cache operator is wrapped directly by Prefixed (the idiom before a Reduce on a
		// multi-column key): it is still a cache operator
		mp2 := PNode{Op: "map", In: []int{0}, Out: []string{"int", "int", "int64"}, Src: []int{0, -1, -1}, Salt: c.Seed + 1, Mod: 7}
		nodes = append(nodes, mp2)
		cache.In = []int{1}
		nodes = append(nodes, cache)
		ci = 2
		nodes = append(nodes, PNode{Op: "prefixed", In: []int{2}, P: 2}, PNode{Op: "reduce", In: []int{3}, Fold: "sum"})
	case "after-materialize":
		// the cached slice's dependency is not pipelined into the cache's task (Materialize
		// pragma): the cache operator is the first operation of its pipeline
		mp.Pragma = "materialize"
		nodes = append(nodes, mp)
		cache.In = []int{1}
		nodes = append(nodes, cache)
		ci = 2
		nodes = append(nodes, PNode{Op: "filter", In: []int{2}, P: 3, Salt: 2})
	case "before-shuffle":
		nodes = append(nodes, mp)
		cache.In = []int{1}
		nodes = append(nodes, cache)
		ci = 2
		nodes = append(nodes, PNode{Op: "reduce", In: []int{2}, Fold: "sum"})
	case "after-shuffle":
		nodes = append(nodes, mp, PNode{Op: "reduce", In: []int{1}, Fold: "sum"})
		cache.In = []int{2}
		nodes = append(nodes, cache)
		ci = 3
		nodes = append(nodes, PNode{Op: "filter", In: []int{3}, P: 4, Salt: 2})
	case "under-head":
		nodes = append(nodes, mp)
		cache.In = []int{1}
		nodes = append(nodes, cache)
		ci = 2
		nodes = append(nodes, PNode{Op: "head", In: []int{2}, P: 7})
	}
	return Spec{Nodes: nodes}, ci
}

func cachePath(dir string, shard, n int) string {
	return fmt.Sprintf("%s/c-%04d-of-%04d", dir, shard, n)
}

// readCacheFile decodes a shard file the way the cache reader does.
func readCacheFile(path string, kinds []string) ([]row, error) {
	ctx := context.Background()
	f, err := file.Open(ctx, path)
	if err != nil {
		return nil, err
	}
	defer f.Close(ctx)
	zr, err := zstd.NewReader(f.Reader(ctx))
	if err != nil {
		return nil, err
	}
	defer zr.Close()
	ts := make([]*colType, len(kinds))
	for i, k := range kinds {
		ts[i] = &colType{Name: k, Typ: kindType(k)}
	}
	r := sliceio.NewDecodingReader(zr)
	var rows []row
	for {
		fr, cols := frameOf(ts, make([]row, 0), 0)
		_ = fr
		_ = cols
		buf := make([]row, 64)
		for i := range buf {
			buf[i] = make(row, len(kinds))
			for j, k := range kinds {
				buf[i][j] = mkVal(k, 1)
			}
		}
		f2, c2 := frameOf(ts, buf, 0)
		n, err := r.Read(ctx, f2)
		got := readCols(c2)
		rows = append(rows, got[:n]...)
		if err == sliceio.EOF {
			return rows, nil
		}
		if err != nil {
			return rows, err
		}
	}
}

func runC13case(t *vf.T, c c13case) {
	dir, err := os.MkdirTemp("", "c13-")
	if err != nil {
		t.Inconclusive(err.Error())
		return
	}
	defer os.RemoveAll(dir)
	ls := startSession(c.Conf)
	defer ls.Close()
	ex := c.Conf.Kind
	sig := fmt.Sprintf("%s pos=%s exec=%s", c.Kind, c.Position, ex)
	sp, ci := c13program(c, dir)
	want, rels, err := evalSpec(&sp, nil)
	if err != nil {
		t.Inconclusive("spec: " + err.Error())
		return
	}
	cached := rels[ci] // the relation stored in the cache
	nshard := cached.nshard()
	// ---- run 1 (possibly with a fault)
	r1 := sp
	r1.Run = fmt.Sprintf("c13-%d-1", t.Index())
	defer probes.Delete(r1.Run)
	if c.UserFail >= 0 {
		r1.Fail = &FailSpec{Node: 0, Mode: "error", AtCall: c.UserFail, Persist: true, Msg: "verif-c13-source-failure"}
	}
	vfault.reset(c.FailAt, c.FailOp, c.Short)
	if c.From {
		vfault.persistent()
	}
	out1 := runSpec(ls, r1, [2]bigslice.Slice{}, true, 120*time.Second)
	nops, oplog, fired := vfault.snapshot()
	vfault.reset(-1, "", false)
	if out1.TimedOut {
		t.Inconclusive("watchdog in the first run")
		return
	}
	faulty := c.FailAt >= 0 || c.UserFail >= 0
	failed1 := out1.RunErr != nil || out1.ScanErr != nil || out1.Panic != nil
	if c.FailAt >= 0 && fired == 0 {
		t.Count("faults_not_reached", 1)
		faulty = c.UserFail >= 0
	}
	if !faulty && failed1 {
		t.Violate(sig+" failure-free-run-failed", fmt.Sprintf("run: %v scan: %v panic: %v", out1.RunErr, out1.ScanErr, out1.Panic))
		return
	}
	if !failed1 {
		// transparency: the cache operator never changes the rows (also when a fault was survived)
		if d := compareResult(out1.Rows, want); d != "" {
			t.Violate(sig+" rows-differ-with-cache", "first run: "+d)
			return
		}
	}
	t.Count("file_ops_observed", int64(nops))
	if fired > 0 {
		t.Count("file_faults_fired", int64(fired))
		for _, l := range oplog {
			parts := strings.SplitN(l, ":", 3)
			if len(parts) == 3 {
				t.Seen("faulted_op_kinds", parts[1])
			}
		}
	}
	// ---- complete-or-absent: every file a later NewFileShardCache would accept must hold the
	// complete reference shard
	complete := 0
	for s := 0; s < nshard; s++ {
		p := cachePath(dir, s, nshard)
		if _, err := os.Stat(p); err != nil {
			continue
		}
		t.Count("cache_files_inspected", 1)
		rows, err := readCacheFile(p, cached.Kinds)
		var d string
		if err != nil {
			d = "decoding fails: " + err.Error()
		} else if cached.Placed && cached.Ordered {
			d = rowsDiffProg(rows, cached.Shards[s])
		} else {
			// shard membership after a shuffle is not known to the reference; the union is checked below
			d = ""
		}
		if d != "" {
			how := "after a failure-free run"
			if faulty {
				how = "after a faulted run"
			}
			if c.Position == "under-head" {
				how += " with an early-terminating consumer"
			}
			t.Violate(sig+" incomplete-file-accepted", fmt.Sprintf("%s the file of shard %d exists (a later run accepts it) but %s; ops: %v", how, s, d, tailStrs(oplog, 12)))
			return
		}
		complete++
	}
	if !faulty && c.Position != "under-head" && complete != nshard {
		t.Violate(sig+" file-missing-after-success", fmt.Sprintf("%d of %d shard files exist after a successful, fully consumed run", complete, nshard))
		return
	}
	if faulty && !failed1 && c.Position != "under-head" && complete != nshard {
		// a run that survived the fault (the failed attempt was retried) has completed: every shard is
		// cached, as after any completed run
		t.Violate(sig+" file-missing-after-success-despite-fault", fmt.Sprintf("%d of %d shard files exist after a run that completed successfully although a file operation failed (%s); ops: %v", complete, nshard, c.FailOp, tailStrs(oplog, 12)))
		return
	}
	if faulty && !failed1 {
		t.Count("faulted_runs_that_completed", 1)
	}
	if !cached.Placed && complete == nshard {
		var union []row
		for s := 0; s < nshard; s++ {
			rows, _ := readCacheFile(cachePath(dir, s, nshard), cached.Kinds)
			union = append(union, rows...)
		}
		if d := multisetDiff(union, cached.all()); d != "" {
			t.Violate(sig+" cache-contents", d)
			return
		}
	}
	// ---- run 2: on a given subset of shard files, reads cached shards without recomputation
	if faulty || c.Position == "under-head" {
		t.Nontrivial("")
		return
	}
	for s := 0; s < nshard; s++ {
		if c.Present&(1<<uint(s)) == 0 {
			os.Remove(cachePath(dir, s, nshard))
		}
	}
	allPresent := c.Present&(1<<uint(nshard)-1) == 1<<uint(nshard)-1
	r2 := sp
	r2.Run = fmt.Sprintf("c13-%d-2", t.Index())
	defer probes.Delete(r2.Run)
	out2 := runSpec(ls, r2, [2]bigslice.Slice{}, true, 120*time.Second)
	if out2.TimedOut {
		t.Inconclusive("watchdog in the second run")
		return
	}
	if out2.RunErr != nil || out2.ScanErr != nil || out2.Panic != nil {
		t.Violate(sig+" second-run-failed", fmt.Sprintf("present=%b: run: %v scan: %v panic: %v", c.Present, out2.RunErr, out2.ScanErr, out2.Panic))
		return
	}
	if d := compareResult(out2.Rows, want); d != "" {
		t.Violate(sig+" rows-differ-with-cache", fmt.Sprintf("second run (present=%b): %s", c.Present, d))
		return
	}
	// user metrics of a partly cached run: the result's scope reports exactly the increments the
	// user functions performed in this run (tasks that were skipped performed none), whichever
	// shards were cached
	if out2.Res != nil && len(ls.lostMachines()) == 0 {
		pr := probeFor(r2.Run)
		var did [nCounters]int64
		pr.mu.Lock()
		for k, v := range pr.incrs {
			did[k] = atomic.LoadInt64(v)
		}
		pr.mu.Unlock()
		if got := counterValues(out2.Res); got != did {
			t.Violate(sig+" counters-differ-with-cache", fmt.Sprintf("second run (present=%b): the result's scope reports %v, the user functions performed %v increments in this run", c.Present, got, did))
			return
		}
		t.Count("scopes_of_partly_cached_runs_checked", 1)
		if did != ([nCounters]int64{}) {
			t.Count("scopes_of_partly_cached_runs_with_increments", 1)
		}
	}
	// recomputation: the source knows its shard. Only meaningful when the cache sits in the
	// source's pipeline (shards correspond).
	if c.Position != "after-shuffle" {
		pr := probeFor(r2.Run)
		for s := 0; s < nshard; s++ {
			pr.mu.Lock()
			calls := pr.shardCalls[[2]int{0, s}]
			pr.mu.Unlock()
			hit := c.Present&(1<<uint(s)) != 0
			if c.Kind == "cache" {
				hit = allPresent
			}
			if hit && calls > 0 {
				t.Violate(sig+" recomputed-cached-shard", fmt.Sprintf("shard %d was cached (present=%b) but its source function was invoked %d times in the second run", s, c.Present, calls))
				return
			}
			if !hit && calls == 0 && c.Rows > 0 {
				t.Violate(sig+" uncached-shard-not-computed", fmt.Sprintf("shard %d was not cached (present=%b, kind %s) but its source never ran", s, c.Present, c.Kind))
				return
			}
			if hit {
				t.Count("cached_shards_skipped", 1)
			} else {
				t.Count("uncached_shards_recomputed", 1)
			}
		}
	} else if allPresent {
		pr := probeFor(r2.Run)
		pr.mu.Lock()
		total := int64(0)
		for k, v := range pr.shardCalls {
			if k[0] == 0 {
				total += v
			}
		}
		pr.mu.Unlock()
		if total > 0 {
			t.Violate(sig+" recomputed-cached-shard", fmt.Sprintf("all shard files present, yet the source ran %d times", total))
			return
		}
		t.Count("cached_shards_skipped", int64(nshard))
	}
	// ReadCache over a complete cache yields the cached relation
	if allPresent {
		r3 := Spec{Run: fmt.Sprintf("c13-%d-3", t.Index()), Nodes: []PNode{{Op: "readcache", Shards: nshard, Out: cached.Kinds, Path: "vfault://" + dir + "/c"}}}
		defer probes.Delete(r3.Run)
		out3 := runSpec(ls, r3, [2]bigslice.Slice{}, true, 120*time.Second)
		if out3.RunErr != nil || out3.ScanErr != nil || out3.Panic != nil || out3.TimedOut {
			t.Violate(sig+" readcache-failed", fmt.Sprintf("run: %v scan: %v panic: %v", out3.RunErr, out3.ScanErr, out3.Panic))
			return
		}
		cc := *cached
		if d := compareResult(out3.Rows, &cc); d != "" {
			t.Violate(sig+" readcache-rows", d)
			return
		}
		t.Count("readcache_runs", 1)
	}
	t.Count("two_run_cases", 1)
	t.Nontrivial("")
}

func rowsDiffProg(got, want []row) string {
	for i := 0; i < len(got) && i < len(want); i++ {
		if a, b := progRowStr(got[i]), progRowStr(want[i]); a != b {
			return fmt.Sprintf("row %d is %s, reference %s", i, a, b)
		}
	}
	if len(got) != len(want) {
		return fmt.Sprintf("it holds %d rows, the complete shard has %d", len(got), len(want))
	}
	return ""
}

func tailStrs(x []string, n int) []string {
	if len(x) > n {
		return x[len(x)-n:]
	}
	return x
}

func runC13(r *vf.Runner) {
	confs := []sessConf{localP4, bm2}
	positions := []string{"head", "middle", "under-prefixed", "after-selective-filter", "after-materialize", "before-shuffle", "after-shuffle", "under-head"}
	run := func(c c13case) { r.Case(c, func(t *vf.T) { runC13case(t, c) }) }
	// (a) every subset of pre-existing shard files for <= 3 (quick) / 4 (thorough) shards
	maxS := 3
	if !r.Quick() {
		maxS = 4
	}
	i := 0
	for _, conf := range confs {
		for _, kind := range []string{"cache", "cachepartial"} {
			for _, pos := range positions {
				for s := 1; s <= maxS; s++ {
					for present := 0; present < 1<<uint(s); present++ {
						i++
						if r.Quick() && conf.Kind != "local" && i%4 != 0 {
							continue
						}
						if pos == "under-head" && present != 0 {
							continue
						}
						run(c13case{Conf: conf, Kind: kind, Position: pos, Shards: s, Rows: 130, Present: present, FailAt: -1, UserFail: -1, Seed: uint64(7 + s)})
					}
				}
			}
		}
	}
	// (b) a fault at every file operation ordinal of the write-through (space discovered by a
	// fault-free trace of the same program), and source failures mid-shard
	for _, conf := range confs {
		for _, kind := range []string{"cache", "cachepartial"} {
			for _, pos := range []string{"middle", "after-shuffle"} {
				c := c13case{Conf: conf, Kind: kind, Position: pos, Shards: 2, Rows: 130, FailAt: -1, UserFail: -1, Seed: 11}
				// The fault space is a fixed superset of the ordinals a fault-free trace shows (about
				// 90 operations, 82 of them writes, for two shards); ordinals beyond the actual trace
				// never fire and are counted as such. (A per-process trace would make the case list
				// differ between child batches.)
				n := 96
				step := 1
				if r.Quick() {
					step = 3
					if conf.Kind != "local" {
						step = 7
					}
				}
				for k := 0; k < n; k += step {
					cc := c
					cc.FailAt, cc.Short = k, k%2 == 1
					run(cc)
				}
				for _, op := range []string{"Close", "Create"} {
					for k := 0; k < 2; k++ {
						cc := c
						cc.FailAt, cc.FailOp = k, op
						run(cc)
					}
				}
				// persistent write faults: every Write from the k-th on fails, so no retry can repair
				// what a failed attempt left behind. k ranges over the Write ordinals of the trace.
				for _, shards := range []int{1, 2} {
					c1 := c
					c1.Shards = shards
					w := 44 * shards
					for k := 0; k < w; k++ {
						if r.Quick() && k%5 != 0 && (k < 41*shards-6 || k > 41*shards) {
							continue
						}
						cc := c1
						cc.FailAt, cc.FailOp, cc.From, cc.Short = k, "Write", true, k%2 == 0
						run(cc)
					}
				}
				for _, uf := range []int{0, 1, 3} {
					cc := c
					cc.UserFail = uf
					run(cc)
				}
			}
		}
	}
}

var c13traceMemo = map[string]int{}
var c13traceWrites = map[string]int{}

// c13traceOps runs the program fault-free once (per process) to learn how many file operations
// the write-through performs: this defines the fault space.
func c13traceOps(c c13case) int {
	key := fmt.Sprintf("%s/%s/%s/%d", c.Conf, c.Kind, c.Position, c.Shards)
	if n, ok := c13traceMemo[key]; ok {
		return n
	}
	dir, _ := os.MkdirTemp("", "c13t-")
	defer os.RemoveAll(dir)
	ls := startSession(c.Conf)
	defer ls.Close()
	sp, _ := c13program(c, dir)
	sp.Run = "c13-trace-" + key
	defer probes.Delete(sp.Run)
	vfault.reset(-1, "", false)
	runSpec(ls, sp, [2]bigslice.Slice{}, true, 120*time.Second)
	n, log, _ := vfault.snapshot()
	w := 0
	for _, l := range log {
		if strings.Contains(l, ":Write:") {
			w++
		}
	}
	c13traceMemo[key] = n
	c13traceWrites[key] = w
	return n
}

var _ = sort.Strings
var _ = filepath.Join
