package props

import (
	"context"
	"fmt"
	"time"

	"github.com/grailbio/bigslice"
	"verifharness/internal/vf"
)

// C01 — running a slice program yields exactly the rows its operators prescribe.

func init() { Registry["C01"] = runC01 }

type c01case struct {
	Conf sessConf `json:"conf"`
	Spec Spec     `json:"spec"`
	Why  string   `json:"why,omitempty"`
}

type sessionPool struct {
	m map[string]*liveSession
}

func (p *sessionPool) get(c sessConf) *liveSession {
	if p.m == nil {
		p.m = map[string]*liveSession{}
	}
	k := c.String()
	if ls := p.m[k]; ls != nil {
		return ls
	}
	ls := startSession(c)
	p.m[k] = ls
	return ls
}

func (p *sessionPool) drop(c sessConf) {
	if ls := p.m[c.String()]; ls != nil {
		go ls.Close()
		delete(p.m, c.String())
	}
}

func (p *sessionPool) closeAll() {
	for k, ls := range p.m {
		ls.Close()
		delete(p.m, k)
	}
}

// reachable returns the nodes the result depends on.
func reachable(sp *Spec) map[int]bool {
	seen := map[int]bool{}
	var walk func(i int)
	walk = func(i int) {
		if seen[i] {
			return
		}
		seen[i] = true
		for _, j := range sp.Nodes[i].In {
			walk(j)
		}
	}
	walk(len(sp.Nodes) - 1)
	return seen
}

func hasOp(sp *Spec, op string) bool {
	for _, n := range sp.Nodes {
		if n.Op == op {
			return true
		}
	}
	return false
}

// checkRecorder compares what Scan/WriterFunc callbacks observed with the reference rows of
// their input. Returns a description of the first disagreement.
func checkRecorder(sp *Spec, rels []*rel, strictOnce bool) (string, int) {
	pr := probeFor(sp.Run)
	reach := reachable(sp)
	head := hasOp(sp, "head")
	seenRows := 0
	for ni, n := range sp.Nodes {
		if !reach[ni] || (n.Op != "scan" && n.Op != "writerfunc") {
			continue
		}
		in := rels[n.In[0]]
		if in.Weak {
			continue
		}
		var union []row
		for s := 0; s < in.nshard(); s++ {
			pr.mu.Lock()
			e := pr.entries[recKey{sp.Run, ni, s}]
			var atts []recAttempt
			if e != nil {
				for _, a := range e.Attempts {
					atts = append(atts, recAttempt{Rows: append([]row{}, a.Rows...), EOFs: a.EOFs})
				}
			}
			pr.mu.Unlock()
			if head {
				continue // an early-terminating consumer may stop the callbacks short
			}
			if len(atts) == 0 {
				return fmt.Sprintf("node %d (%s) shard %d: callback never ran", ni, n.Op, s), seenRows
			}
			if strictOnce && len(atts) != 1 {
				return fmt.Sprintf("node %d (%s) shard %d: callback sequence ran %d times in a failure-free run of a program without shared sub-slices", ni, n.Op, s, len(atts)), seenRows
			}
			for ai, a := range atts {
				rows := a.Rows
				seenRows += len(rows)
				if ai == 0 {
					union = append(union, rows...)
				}
				if a.EOFs != 1 {
					return fmt.Sprintf("node %d (%s) shard %d: saw end-of-stream %d times after %d rows", ni, n.Op, s, a.EOFs, len(rows)), seenRows
				}
				if in.Placed {
					want := in.Shards[s]
					if in.Ordered {
						for i := 0; i < len(rows) && i < len(want); i++ {
							if progRowStr(rows[i]) != progRowStr(want[i]) {
								return fmt.Sprintf("node %d (%s) shard %d: callback row %d is %s, reference %s", ni, n.Op, s, i, progRowStr(rows[i]), progRowStr(want[i])), seenRows
							}
						}
						if len(rows) != len(want) {
							return fmt.Sprintf("node %d (%s) shard %d: callback saw %d rows, reference %d", ni, n.Op, s, len(rows), len(want)), seenRows
						}
					} else if d := multisetDiff(rows, want); d != "" {
						return fmt.Sprintf("node %d (%s) shard %d: %s", ni, n.Op, s, d), seenRows
					}
				}
			}
		}
		if !head && !in.Placed {
			if d := multisetDiff(union, in.all()); d != "" {
				return fmt.Sprintf("node %d (%s) all shards: %s", ni, n.Op, d), seenRows
			}
		}
	}
	return "", seenRows
}

// opSig names the operators of a spec for violation signatures (minimised by the shrinker).
func opSig(sp *Spec) string {
	reach := reachable(sp)
	s := ""
	for i, n := range sp.Nodes {
		if reach[i] {
			if s != "" {
				s += ">"
			}
			s += n.Op
		}
	}
	return s
}

// runAndCompare runs a spec and applies the C01 oracle. It returns a violation kind and text.
func runAndCompare(ls *liveSession, sp Spec, args [2]bigslice.Slice, argRels []*rel) (kind, what string, out runOutcome, want *rel, incon bool) {
	want, rels, err := evalSpec(&sp, argRels)
	if err != nil {
		return "", "", out, nil, true
	}
	out = runSpec(ls, sp, args, true, 120*time.Second)
	switch {
	case out.TimedOut:
		return "", "watchdog: run did not return within 120 s", out, want, true
	case out.Panic != nil:
		return "panic:" + out.PanicAt, fmt.Sprintf("Run panicked: %v", out.Panic), out, want, false
	case out.RunErr != nil:
		return "run-error", "Run failed on a valid program: " + out.RunErr.Error(), out, want, false
	case out.ScanErr != nil:
		return "scan-error", "scanning the result failed: " + out.ScanErr.Error(), out, want, false
	}
	if len(want.Kinds) > 0 || want.Weak {
		if d := compareResult(out.Rows, want); d != "" {
			return "rows", d, out, want, false
		}
	} else if len(out.Rows) != 0 {
		return "rows", fmt.Sprintf("unit slice yielded %d rows", len(out.Rows)), out, want, false
	}
	// A sub-slice consumed by several shuffles is compiled (and run) once per distinct partitioning
	// by design, so "exactly once" is asserted only for programs without shared sub-slices.
	if d, _ := checkRecorder(&sp, rels, !specFeatures(&sp).Sharing); d != "" {
		return "callback", d, out, want, false
	}
	return "", "", out, want, false
}

// shrinkSpec greedily drops operators / halves data while the violation kind persists.
func shrinkSpec(ls func() *liveSession, sp Spec, kind string) Spec {
	cur := sp
	try := func(c Spec) bool {
		c.Run = sp.Run + "-shrink"
		probes.Delete(c.Run)
		if _, _, err := evalSpec(&c, nil); err != nil {
			return false
		}
		k, _, _, _, _ := runAndCompare(ls(), c, [2]bigslice.Slice{}, nil)
		return k == kind
	}
	for changed, rounds := true, 0; changed && rounds < 6; rounds++ {
		changed = false
		// bypass single-input operators
		for i := len(cur.Nodes) - 1; i >= 0; i-- {
			n := cur.Nodes[i]
			if len(n.In) != 1 || n.Op == "prefixed" && false {
				continue
			}
			c := Spec{Run: cur.Run}
			c.Nodes = append([]PNode{}, cur.Nodes...)
			// redirect consumers of i to its input
			for j := range c.Nodes {
				ins := append([]int{}, c.Nodes[j].In...)
				for k := range ins {
					if ins[k] == i {
						ins[k] = n.In[0]
					}
				}
				c.Nodes[j].In = ins
			}
			if i == len(c.Nodes)-1 {
				c.Nodes = c.Nodes[:i]
				if len(c.Nodes) == 0 {
					continue
				}
				// the result must now be the input
				if n.In[0] != len(c.Nodes)-1 {
					continue
				}
			}
			func() {
				defer func() { recover() }()
				if try(c) {
					cur, changed = c, true
				}
			}()
		}
		// smaller data
		for i := range cur.Nodes {
			if cur.Nodes[i].Rows > 1 {
				c := Spec{Run: cur.Run, Nodes: append([]PNode{}, cur.Nodes...)}
				c.Nodes[i].Rows /= 2
				func() {
					defer func() { recover() }()
					if try(c) {
						cur, changed = c, true
					}
				}()
			}
			if cur.Nodes[i].Shards > 1 && (cur.Nodes[i].Op == "const" || cur.Nodes[i].Op == "readerfunc" || cur.Nodes[i].Op == "scanreader") {
				c := Spec{Run: cur.Run, Nodes: append([]PNode{}, cur.Nodes...)}
				c.Nodes[i].Shards--
				func() {
					defer func() { recover() }()
					if try(c) {
						cur, changed = c, true
					}
				}()
			}
		}
	}
	return cur
}

func runC01case(t *vf.T, pool *sessionPool, c c01case) {
	c.Spec.Run = fmt.Sprintf("c01-%d", t.Index())
	defer probes.Delete(c.Spec.Run)
	defer probes.Delete(c.Spec.Run + "-shrink")
	ls := pool.get(c.Conf)
	kind, what, out, want, incon := runAndCompare(ls, c.Spec, [2]bigslice.Slice{}, nil)
	if incon {
		if what != "" {
			t.Inconclusive(what)
			pool.drop(c.Conf)
		}
		return
	}
	f := specFeatures(&c.Spec)
	if kind != "" {
		pool.drop(c.Conf)
		min := c.Spec
		func() {
			defer func() { recover() }()
			min = shrinkSpec(func() *liveSession { return pool.get(c.Conf) }, c.Spec, kind)
		}()
		ex := "local"
		if c.Conf.Kind != "local" {
			ex = "bigmachine"
		}
		t.Violate(fmt.Sprintf("%s ops=%s exec=%s", kind, opSig(&min), ex), fmt.Sprintf("%s | program: %s | minimised: %s %+v", what, specString(&c.Spec), specString(&min), min.Nodes))
		return
	}
	if out.Res != nil {
		out.Res.Discard(context.Background())
	}
	t.Count("programs_run", 1)
	t.Count("result_rows", int64(len(out.Rows)))
	if f.Shuffle {
		t.Count("programs_with_shuffle", 1)
	}
	if f.Sharing {
		t.Count("programs_with_sharing", 1)
	}
	if f.Cogroup2 {
		t.Count("programs_with_multi_cogroup", 1)
	}
	if f.Boundary {
		t.Count("programs_with_boundary_sizes", 1)
	}
	if f.Nested {
		t.Count("programs_with_nested_shuffles", 1)
	}
	if f.PrefixGT {
		t.Count("programs_with_prefix_gt1", 1)
	}
	if c.Conf.Kind != "local" {
		t.Count("programs_on_bigmachine", 1)
	}
	nonEmpty := want != nil && (want.count() > 0 || want.Weak)
	if f.Ops >= 2 && (nonEmpty || len(out.Rows) == 0) {
		t.Nontrivial(specKey(&c.Spec) + c.Conf.String())
	}
	for _, n := range c.Spec.Nodes {
		t.Seen("operators", n.Op)
	}
}

func specKey(sp *Spec) string {
	s := ""
	for _, n := range sp.Nodes {
		s += fmt.Sprintf("%s%v/%d/%d/%d/%v/%v/%d|", n.Op, n.In, n.Shards, n.P, n.Rows, n.Out, n.Chunks, n.Salt%1000)
	}
	return s
}

var localP1 = sessConf{Kind: "local", P: 1}
var localP4 = sessConf{Kind: "local", P: 4}
var bm2 = sessConf{Kind: "bigmachine", P: 4, MachProcs: 2, MaxLoad: 0.95}

func c01regression() []Spec {
	var out []Spec
	src := func(rows, shards int) PNode {
		return PNode{Op: "const", Shards: shards, Rows: rows, Out: []string{"int", "string"}, Salt: 11, Mod: 50}
	}
	// ScanReader over 0/1/n lines with n <,=,> shards
	for _, lines := range []int{0, 1, 2, 3, 5, 130} {
		for _, sh := range []int{1, 2, 3} {
			out = append(out, Spec{Nodes: []PNode{{Op: "scanreader", Shards: sh, Rows: lines, Salt: 5, Mod: 3}}})
		}
	}
	// Flatmap fan-out larger than the vector
	out = append(out, Spec{Nodes: []PNode{src(5, 1), {Op: "flatmap", In: []int{0}, Out: []string{"int", "string"}, Src: []int{-1, -1}, P: 700, Salt: 3, Mod: 0}}})
	// Filter with a low accept rate across the 128 boundary
	out = append(out, Spec{Nodes: []PNode{src(257, 1), {Op: "filter", In: []int{0}, P: 50, Salt: 9}}})
	out = append(out, Spec{Nodes: []PNode{src(257, 2), {Op: "filter", In: []int{0}, P: 2, Salt: 9}, {Op: "head", In: []int{1}, P: 128}}})
	// a sub-slice consumed with two partition counts
	out = append(out, Spec{Nodes: []PNode{src(129, 2), {Op: "reshard", In: []int{0}, Shards: 3}, {Op: "reshard", In: []int{0}, Shards: 5}, {Op: "cogroup", In: []int{1, 2}}}})
	// Head(0), Head > shard
	out = append(out, Spec{Nodes: []PNode{src(17, 3), {Op: "head", In: []int{0}, P: 0}}})
	out = append(out, Spec{Nodes: []PNode{src(17, 3), {Op: "head", In: []int{0}, P: 1000}}})
	// unit (Scan) result, also on the distributed executor
	out = append(out, Spec{Nodes: []PNode{src(5, 2), {Op: "scan", In: []int{0}}}})
	// reduce with prefix 2, colliding keys
	out = append(out, Spec{Nodes: []PNode{src(257, 3), {Op: "map", In: []int{0}, Out: []string{"uint16", "string", "int64"}, Src: []int{-1, 1, -1}, Mod: 4, Salt: 1}, {Op: "prefixed", In: []int{1}, P: 2}, {Op: "reduce", In: []int{2}, Fold: "sum"}}})
	// fold then scan
	out = append(out, Spec{Nodes: []PNode{src(129, 2), {Op: "fold", In: []int{0}, Salt: 4}, {Op: "writerfunc", In: []int{1}}, {Op: "scan", In: []int{2}}}})
	// Reduce whose merge inputs straddle the vector size: every producer sends each output shard
	// several hundred distinct keys, mostly not shared with the other producers (identical streams
	// advance in step and hide ordering mistakes), so the merging reader refills its buffers out of step
	// (index 27: also run on the distributed executor in the quick tier)
	out = append(out, Spec{Nodes: []PNode{{Op: "readerfunc", Shards: 3, Rows: 1500, Out: []string{"int", "int64"}, Salt: 12, Mod: 20000, Chunks: []int{97}}, {Op: "reduce", In: []int{0}, Fold: "sum", Shards: 2}}})
	return out
}

func runC01(r *vf.Runner) {
	pool := &sessionPool{}
	defer pool.closeAll()
	run := func(c c01case) { r.Case(c, func(t *vf.T) { runC01case(t, pool, c) }) }
	for _, sp := range c01regression() {
		run(c01case{Conf: localP1, Spec: sp, Why: "regression"})
		run(c01case{Conf: localP4, Spec: sp, Why: "regression"})
	}
	for i, sp := range c01regression() {
		if r.Quick() && i%3 != 0 {
			continue
		}
		run(c01case{Conf: bm2, Spec: sp, Why: "regression"})
	}
	// (a) bounded-exhaustive: every operator chain of length <= 2 (quick) / 3 (thorough) over
	// every source kind, sizes 0,1,127,128,129,257 and shard counts 1,2,3,5
	sources := []string{"const", "readerfunc", "scanreader"}
	chainOps := []string{"map", "filter", "flatmap", "fold", "head", "mapkv", "cogroup", "reshuffle", "repartition", "reshard", "prefixed", "writerfunc"}
	rnd := r.Rand("chains")
	maxLen := 2
	if !r.Quick() {
		maxLen = 3
	}
	var chains [][]string
	var rec func(prefix []string)
	rec = func(prefix []string) {
		if len(prefix) > 0 {
			chains = append(chains, append([]string{}, prefix...))
		}
		if len(prefix) == maxLen {
			return
		}
		for _, op := range chainOps {
			rec(append(prefix, op))
		}
	}
	rec(nil)
	ci := 0
	for _, src := range sources {
		for _, chain := range chains {
			for _, rows := range []int{0, 1, 127, 128, 129, 257} {
				for _, sh := range []int{1, 2, 3, 5} {
					ci++
					if r.Quick() && ci%7 != 0 {
						continue
					}
					if !r.Quick() && len(chain) == 3 && ci%5 != 0 {
						continue
					}
					f := rnd.Fork()
					src, chain, rows, sh := src, chain, rows, sh
					r.CaseLazy(func() any {
						sp := genChain(f, src, chain, rows, sh)
						if sp == nil {
							return c01case{Conf: localP4, Why: "chain-not-applicable"}
						}
						return c01case{Conf: localP4, Spec: *sp, Why: "chain"}
					}, func(t *vf.T, d any) {
						if c := d.(c01case); len(c.Spec.Nodes) > 0 {
							runC01case(t, pool, c)
						}
					})
				}
			}
		}
	}
	// (b) seeded random DAGs
	nl, nb := 150, 12
	if !r.Quick() {
		nl, nb = 5000, 300
	}
	g := r.Rand("dags")
	opts := genOpts{MaxOps: 6, Sources: []string{"const", "readerfunc", "readerfunc", "scanreader"}}
	for i := 0; i < nl; i++ {
		conf := localP4
		if i%3 == 0 {
			conf = localP1
		}
		run(c01case{Conf: conf, Spec: genSpec(g.Fork(), opts), Why: "random"})
	}
	for i := 0; i < nb; i++ {
		run(c01case{Conf: bm2, Spec: genSpec(g.Fork(), opts), Why: "random"})
	}
}

// genChain builds source -> op1 -> op2 ... with seeded parameters; nil if the chain is ill-typed.
func genChain(rnd *vf.Rand, src string, chain []string, rows, shards int) *Spec {
	for attempt := 0; attempt < 8; attempt++ {
		o := genOpts{MaxOps: 1, Sources: []string{src}, NoScan: true}
		sp := genSpec(rnd.Fork(), o)
		sp.Nodes = sp.Nodes[:1]
		sp.Nodes[0].Rows, sp.Nodes[0].Shards = rows, shards
		ok := true
		for i, op := range chain {
			ext := extendWith(rnd.Fork(), sp, op, i == len(chain)-1)
			if ext == nil {
				ok = false
				break
			}
			sp = *ext
		}
		if ok {
			return &sp
		}
	}
	return nil
}

// extendWith appends one operator of the given kind to the last node (using the generator with
// a single allowed operator); nil if not applicable.
func extendWith(rnd *vf.Rand, sp Spec, op string, last bool) *Spec {
	_, rels, err := evalSpec(&sp, nil)
	if err != nil {
		return nil
	}
	base := len(sp.Nodes)
	for tries := 0; tries < 6; tries++ {
		g := genFrom(rnd.Fork(), sp, rels, op, last)
		if g != nil && len(g.Nodes) > base {
			return g
		}
	}
	return nil
}
