package props

import (
	"bytes"
	"encoding/json"
	"fmt"
	"reflect"
	"strings"

	"github.com/grailbio/bigslice/frame"
	"github.com/grailbio/bigslice/slicetype"
	"verifharness/internal/vf"
)

// The column type universe shared by the library-level monitors (C07 C09 C10 C11 C17).

// PlainStruct is a pointer-free struct column type.
type PlainStruct struct {
	A int
	B int32
}

// PtrStruct is a pointer-carrying struct column type.
type PtrStruct struct {
	S string
	P *int
}

// GobOnly is a type only gob can encode (no frame ops).
type GobOnly struct {
	M map[string]int
	L []string
}

// Codec3 is a column type with a custom codec: a batch is sent as one JSON array, and the decoder
// insists on receiving exactly as many values as the batch has rows.
type Codec3 struct{ A, B, C int }

func init() {
	key := frame.FreshKey()
	frame.RegisterOps(func(slice []Codec3) frame.Ops {
		return frame.Ops{
			Encode: func(e frame.Encoder, i, j int) error {
				p, err := json.Marshal(slice[i:j])
				if err != nil {
					return err
				}
				return e.Encode(p)
			},
			Decode: func(d frame.Decoder, i, j int) error {
				var p *[]byte
				if d.State(key, &p) {
					*p = []byte{}
				}
				if err := d.Decode(p); err != nil {
					return err
				}
				var x []Codec3
				if err := json.Unmarshal(*p, &x); err != nil {
					return err
				}
				if len(x) != j-i {
					return fmt.Errorf("verif codec: decoded %d values for %d rows", len(x), j-i)
				}
				copy(slice[i:j], x)
				return nil
			},
		}
	})
}

// CodecL is a column type with a lenient custom codec: a batch is one gob-encoded slice decoded
// straight into the destination rows, and the decoder does not compare the number of values it
// got with the number of rows it was asked for (nothing in frame.Ops asks a codec to). Only the
// stream's own checksum protects the batch length of a frame made of such columns.
type CodecL struct {
	X int
	S string
}

func init() {
	frame.RegisterOps(func(slice []CodecL) frame.Ops {
		return frame.Ops{
			Less: func(i, j int) bool {
				return slice[i].X < slice[j].X || slice[i].X == slice[j].X && slice[i].S < slice[j].S
			},
			HashWithSeed: func(i int, seed uint32) uint32 {
				h := uint32(slice[i].X)*2654435761 ^ seed
				for _, b := range []byte(slice[i].S) {
					h = h*16777619 ^ uint32(b)
				}
				return h
			},
			Encode: func(e frame.Encoder, i, j int) error { return e.Encode(slice[i:j]) },
			Decode: func(d frame.Decoder, i, j int) error {
				p := slice[i:j:j]
				return d.Decode(&p)
			},
		}
	})
}

// I32x3 is a 12-byte pointer-free struct.
type I32x3 struct{ A, B, C int32 }

type colType struct {
	Name string
	Typ  reflect.Type
	Key  bool // frame ops Less/Hash are registered for it
	Gen  func(r *vf.Rand) any
	// small: values from a small alphabet (collisions)
	Small func(r *vf.Rand) any
	Cmp   func(a, b any) int
}

func cmpOrdered[T int | int8 | int16 | int32 | int64 | uint | uint8 | uint16 | uint32 | uint64 | float32 | float64 | string](a, b any) int {
	x, y := a.(T), b.(T)
	switch {
	case x < y:
		return -1
	case x > y:
		return 1
	}
	return 0
}

var words = []string{"", "a", "b", "ab", "ba", "zebra", "Ünï", "a\x00b", strings.Repeat("x", 40)}

var colTypes = map[string]*colType{}

func regCol(c *colType) { colTypes[c.Name] = c }

func init() {
	regCol(&colType{Name: "int", Typ: reflect.TypeOf(int(0)), Key: true,
		Gen:   func(r *vf.Rand) any { return int(int64(r.Uint64())) >> uint(r.Intn(64)) },
		Small: func(r *vf.Rand) any { return r.Intn(5) - 2 }, Cmp: cmpOrdered[int]})
	regCol(&colType{Name: "int8", Typ: reflect.TypeOf(int8(0)), Key: true,
		Gen:   func(r *vf.Rand) any { return int8(r.Uint64()) },
		Small: func(r *vf.Rand) any { return int8(r.Intn(4) - 1) }, Cmp: cmpOrdered[int8]})
	regCol(&colType{Name: "int16", Typ: reflect.TypeOf(int16(0)), Key: true,
		Gen:   func(r *vf.Rand) any { return int16(r.Uint64()) },
		Small: func(r *vf.Rand) any { return int16(r.Intn(4) - 1) }, Cmp: cmpOrdered[int16]})
	regCol(&colType{Name: "int32", Typ: reflect.TypeOf(int32(0)), Key: true,
		Gen:   func(r *vf.Rand) any { return int32(r.Uint64()) },
		Small: func(r *vf.Rand) any { return int32(r.Intn(4) - 1) }, Cmp: cmpOrdered[int32]})
	regCol(&colType{Name: "int64", Typ: reflect.TypeOf(int64(0)), Key: true,
		Gen:   func(r *vf.Rand) any { return int64(r.Uint64()) >> uint(r.Intn(64)) },
		Small: func(r *vf.Rand) any { return int64(r.Intn(4) - 1) }, Cmp: cmpOrdered[int64]})
	regCol(&colType{Name: "uint8", Typ: reflect.TypeOf(uint8(0)), Key: true,
		Gen:   func(r *vf.Rand) any { return uint8(r.Uint64()) },
		Small: func(r *vf.Rand) any { return uint8(r.Intn(4)) }, Cmp: cmpOrdered[uint8]})
	regCol(&colType{Name: "uint16", Typ: reflect.TypeOf(uint16(0)), Key: true,
		Gen:   func(r *vf.Rand) any { return uint16(r.Uint64()) },
		Small: func(r *vf.Rand) any { return uint16(r.Intn(4)) }, Cmp: cmpOrdered[uint16]})
	regCol(&colType{Name: "uint32", Typ: reflect.TypeOf(uint32(0)), Key: true,
		Gen:   func(r *vf.Rand) any { return uint32(r.Uint64()) },
		Small: func(r *vf.Rand) any { return uint32(r.Intn(4)) }, Cmp: cmpOrdered[uint32]})
	regCol(&colType{Name: "uint64", Typ: reflect.TypeOf(uint64(0)), Key: true,
		Gen:   func(r *vf.Rand) any { return r.Uint64() >> uint(r.Intn(64)) },
		Small: func(r *vf.Rand) any { return uint64(r.Intn(4)) }, Cmp: cmpOrdered[uint64]})
	regCol(&colType{Name: "uint", Typ: reflect.TypeOf(uint(0)), Key: true,
		Gen:   func(r *vf.Rand) any { return uint(r.Uint64() >> uint(r.Intn(64))) },
		Small: func(r *vf.Rand) any { return uint(r.Intn(4)) }, Cmp: cmpOrdered[uint]})
	regCol(&colType{Name: "float64", Typ: reflect.TypeOf(float64(0)), Key: true,
		Gen:   func(r *vf.Rand) any { return noNegZero(float64(int64(r.Uint64()>>40)) / 8 * float64(1-2*r.Intn(2))) },
		Small: func(r *vf.Rand) any { return float64(r.Intn(4)) + 0.5 }, Cmp: cmpOrdered[float64]})
	regCol(&colType{Name: "float32", Typ: reflect.TypeOf(float32(0)), Key: true,
		Gen: func(r *vf.Rand) any {
			return float32(noNegZero(float64(float32(int64(r.Uint64()>>48)) / 4 * float32(1-2*r.Intn(2)))))
		},
		Small: func(r *vf.Rand) any { return float32(r.Intn(4)) + 0.25 }, Cmp: cmpOrdered[float32]})
	regCol(&colType{Name: "string", Typ: reflect.TypeOf(""), Key: true,
		Gen: func(r *vf.Rand) any {
			if r.Chance(0.5) {
				return words[r.Intn(len(words))]
			}
			n := r.Intn(12)
			b := make([]byte, n)
			for i := range b {
				b[i] = byte('a' + r.Intn(26))
			}
			return string(b)
		},
		Small: func(r *vf.Rand) any { return words[r.Intn(4)] }, Cmp: cmpOrdered[string]})
	regCol(&colType{Name: "bytes", Typ: reflect.TypeOf([]byte(nil)), Key: true,
		Gen: func(r *vf.Rand) any {
			n := 1 + r.Intn(9)
			b := make([]byte, n)
			for i := range b {
				b[i] = byte(r.Uint64())
			}
			return b
		},
		Small: func(r *vf.Rand) any { return []byte(words[1+r.Intn(4)]) },
		Cmp:   func(a, b any) int { return bytes.Compare(a.([]byte), b.([]byte)) }})
	regCol(&colType{Name: "bool", Typ: reflect.TypeOf(false), Key: true,
		Gen:   func(r *vf.Rand) any { return r.Bool() },
		Small: func(r *vf.Rand) any { return r.Bool() },
		Cmp: func(a, b any) int {
			x, y := a.(bool), b.(bool)
			switch {
			case !x && y:
				return -1
			case x && !y:
				return 1
			}
			return 0
		}})
	regCol(&colType{Name: "plain", Typ: reflect.TypeOf(PlainStruct{}),
		Gen: func(r *vf.Rand) any { return PlainStruct{A: int(r.Uint64() >> 40), B: int32(r.Uint64())} }})
	regCol(&colType{Name: "ptrstruct", Typ: reflect.TypeOf(PtrStruct{}),
		Gen: func(r *vf.Rand) any {
			p := PtrStruct{S: words[1+r.Intn(len(words)-1)]}
			if r.Chance(0.7) {
				x := 1 + r.Intn(1000)
				p.P = &x
			}
			return p
		}})
	// pointer-free element types whose size is not a power of two (3, 12 and 10 bytes): memory
	// operations on a view of such a column must not round up to words
	regCol(&colType{Name: "tri8", Typ: reflect.TypeOf([3]uint8{}),
		Gen: func(r *vf.Rand) any {
			return [3]uint8{uint8(r.Uint64()) | 1, uint8(r.Uint64()) | 1, uint8(r.Uint64()) | 1}
		}})
	regCol(&colType{Name: "i32x3", Typ: reflect.TypeOf(I32x3{}),
		Gen: func(r *vf.Rand) any {
			return I32x3{int32(r.Uint64()) | 1, int32(r.Uint64()) | 1, int32(r.Uint64()) | 1}
		}})
	regCol(&colType{Name: "i16x5", Typ: reflect.TypeOf([5]int16{}),
		Gen: func(r *vf.Rand) any {
			var a [5]int16
			for i := range a {
				a[i] = int16(r.Uint64()) | 1
			}
			return a
		}})
	// a column type with a custom codec (frame.RegisterOps with Encode/Decode), see init below
	regCol(&colType{Name: "codec3", Typ: reflect.TypeOf(Codec3{}),
		Gen: func(r *vf.Rand) any {
			return Codec3{A: 1 + r.Intn(1000), B: -1 - r.Intn(1000), C: 1 + int(r.Uint64()>>40)}
		}})
	regCol(&colType{Name: "codecl", Typ: reflect.TypeOf(CodecL{}), Key: true,
		Gen: func(r *vf.Rand) any {
			return CodecL{X: 1 + r.Intn(1000), S: string(rune('a'+r.Intn(26))) + fmt.Sprint(1+r.Intn(99))}
		},
		Small: func(r *vf.Rand) any { return CodecL{X: 1 + r.Intn(3), S: string(rune('a' + r.Intn(2)))} },
		Cmp: func(a, b any) int {
			x, y := a.(CodecL), b.(CodecL)
			if x.X != y.X {
				return cmpOrdered[int](x.X, y.X)
			}
			return cmpOrdered[string](x.S, y.S)
		}})
	regCol(&colType{Name: "ints", Typ: reflect.TypeOf([]int(nil)),
		Gen: func(r *vf.Rand) any {
			if r.Chance(0.2) {
				return []int(nil)
			}
			n := 1 + r.Intn(4)
			xs := make([]int, n)
			for i := range xs {
				xs[i] = r.Intn(100)
			}
			return xs
		}})
	regCol(&colType{Name: "intptr", Typ: reflect.TypeOf((*int)(nil)),
		Gen: func(r *vf.Rand) any {
			x := 1 + r.Intn(1000)
			return &x
		}})
	regCol(&colType{Name: "gobonly", Typ: reflect.TypeOf(GobOnly{}),
		Gen: func(r *vf.Rand) any {
			g := GobOnly{}
			if r.Chance(0.6) {
				g.M = map[string]int{words[1+r.Intn(4)]: 1 + r.Intn(9)}
			}
			if r.Chance(0.6) {
				g.L = []string{words[1+r.Intn(5)]}
			}
			return g
		}})
	for _, c := range colTypes {
		if c.Small == nil {
			c.Small = c.Gen
		}
	}
}

// A schema is a list of column type names plus the number of leading key-capable columns.
type schema struct {
	Cols   []string `json:"cols"`
	MaxKey int      `json:"maxkey"`
}

func (s schema) types() []*colType {
	ts := make([]*colType, len(s.Cols))
	for i, n := range s.Cols {
		ts[i] = colTypes[n]
		if ts[i] == nil {
			panic("unknown column type " + n)
		}
	}
	return ts
}

type ptype struct {
	cols   []reflect.Type
	prefix int
}

func (p ptype) NumOut() int            { return len(p.cols) }
func (p ptype) Out(i int) reflect.Type { return p.cols[i] }
func (p ptype) Prefix() int            { return p.prefix }

func (s schema) sliceType(prefix int) slicetype.Type {
	ts := s.types()
	rt := make([]reflect.Type, len(ts))
	for i := range ts {
		rt[i] = ts[i].Typ
	}
	if prefix < 1 {
		prefix = 1
	}
	return ptype{rt, prefix}
}

var frameSchemas = []schema{
	{[]string{"int"}, 1},
	{[]string{"string", "int64"}, 2},
	{[]string{"uint8", "bytes", "bool"}, 3},
	{[]string{"float64", "ptrstruct"}, 1},
	{[]string{"int32", "plain", "ints"}, 1},
	{[]string{"string", "string", "intptr"}, 2},
	{[]string{"int16", "float32"}, 2},
	{[]string{"bytes", "string"}, 2},
	{[]string{"uint64", "gobonly"}, 1},
	{[]string{"bool", "uint16", "uint32", "int8"}, 4},
	{[]string{"int", "tri8", "i32x3"}, 1},
	{[]string{"uint8", "i16x5"}, 1},
	{[]string{"int", "codec3", "string"}, 1},
	{[]string{"codecl", "codecl"}, 1},
}

type row []any

func genRow(ts []*colType, r *vf.Rand, small bool) row {
	rw := make(row, len(ts))
	for i, t := range ts {
		if small {
			rw[i] = t.Small(r)
		} else {
			rw[i] = t.Gen(r)
		}
	}
	return rw
}

// cloneVal deep-copies a column value so that the model never aliases frame memory.
func cloneVal(v any) any {
	switch x := v.(type) {
	case []byte:
		if x == nil {
			return []byte(nil)
		}
		return append([]byte{}, x...)
	case []int:
		if x == nil {
			return []int(nil)
		}
		return append([]int{}, x...)
	case *int:
		if x == nil {
			return (*int)(nil)
		}
		y := *x
		return &y
	case PtrStruct:
		if x.P != nil {
			y := *x.P
			x.P = &y
		}
		return x
	case GobOnly:
		g := GobOnly{}
		if x.M != nil {
			g.M = map[string]int{}
			for k, v := range x.M {
				g.M[k] = v
			}
		}
		if x.L != nil {
			g.L = append([]string{}, x.L...)
		}
		return g
	}
	return v
}

func cloneRow(r row) row {
	o := make(row, len(r))
	for i := range r {
		o[i] = cloneVal(r[i])
	}
	return o
}

func cloneRows(rs []row) []row {
	o := make([]row, len(rs))
	for i := range rs {
		o[i] = cloneRow(rs[i])
	}
	return o
}

// valEq compares column values; nil and empty slices/maps are distinguished only where
// the caller asks (strict), because gob does not preserve the difference.
func valEq(a, b any, strict bool) bool {
	if reflect.DeepEqual(a, b) {
		return true
	}
	if strict {
		return false
	}
	return fmt.Sprintf("%v", normVal(a)) == fmt.Sprintf("%v", normVal(b)) && reflect.TypeOf(a) == reflect.TypeOf(b)
}

func normVal(v any) any {
	switch x := v.(type) {
	case []byte:
		return fmt.Sprintf("%x", x)
	case *int:
		if x == nil {
			return "nil"
		}
		return *x
	case PtrStruct:
		if x.P == nil {
			return fmt.Sprintf("{%q nil}", x.S)
		}
		return fmt.Sprintf("{%q %d}", x.S, *x.P)
	case string:
		return fmt.Sprintf("%q", x)
	}
	return v
}

func rowEq(a, b row, strict bool) bool {
	if len(a) != len(b) {
		return false
	}
	for i := range a {
		if !valEq(a[i], b[i], strict) {
			return false
		}
	}
	return true
}

func rowStr(r row) string {
	s := make([]string, len(r))
	for i := range r {
		s[i] = fmt.Sprintf("%v", normVal(r[i]))
	}
	return "(" + strings.Join(s, ",") + ")"
}

func rowsStr(rs []row) string {
	var b strings.Builder
	for i, r := range rs {
		if i > 0 {
			b.WriteByte(' ')
		}
		if i >= 24 {
			fmt.Fprintf(&b, "…(%d rows)", len(rs))
			break
		}
		b.WriteString(rowStr(r))
	}
	return b.String()
}

// cmpKey compares the first prefix columns of two rows.
func cmpKey(ts []*colType, prefix int, a, b row) int {
	for c := 0; c < prefix; c++ {
		if d := ts[c].Cmp(a[c], b[c]); d != 0 {
			return d
		}
	}
	return 0
}

func setVal(dst reflect.Value, v any) {
	if v == nil {
		dst.Set(reflect.Zero(dst.Type()))
		return
	}
	dst.Set(reflect.ValueOf(v))
}

// frameOf builds a frame over fresh Go slices holding (clones of) rows; the caller keeps the
// returned column slices and can inspect the storage without going through package frame.
func frameOf(ts []*colType, rows []row, prefix int) (frame.Frame, []reflect.Value) {
	cols := make([]reflect.Value, len(ts))
	for c, t := range ts {
		v := reflect.MakeSlice(reflect.SliceOf(t.Typ), len(rows), len(rows))
		for i := range rows {
			setVal(v.Index(i), cloneVal(rows[i][c]))
		}
		cols[c] = v
	}
	f := frame.Values(cols)
	if prefix > 0 {
		f = f.Prefixed(prefix)
	}
	return f, cols
}

// readCols reads all rows of column slices directly (no package frame involved).
func readCols(cols []reflect.Value) []row {
	if len(cols) == 0 {
		return nil
	}
	n := cols[0].Len()
	out := make([]row, n)
	for i := 0; i < n; i++ {
		out[i] = make(row, len(cols))
		for c := range cols {
			out[i][c] = cloneVal(cols[c].Index(i).Interface())
		}
	}
	return out
}

// frameRows reads a frame's view through its public accessors.
func frameRows(f frame.Frame) []row {
	out := make([]row, f.Len())
	for i := range out {
		out[i] = make(row, f.NumOut())
		for c := 0; c < f.NumOut(); c++ {
			out[i][c] = cloneVal(f.Index(c, i).Interface())
		}
	}
	return out
}

func zeroRow(ts []*colType) row {
	r := make(row, len(ts))
	for i, t := range ts {
		r[i] = reflect.Zero(t.Typ).Interface()
	}
	return r
}

// noNegZero maps -0 to +0: the two compare equal but are distinct values; only C05 feeds both.
func noNegZero(x float64) float64 {
	if x == 0 {
		return 0
	}
	return x
}
