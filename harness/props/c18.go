package props

import (
	"context"
	"fmt"
	"reflect"
	"runtime"
	"strings"

	"github.com/grailbio/bigslice"
	"github.com/grailbio/bigslice/frame"
	"github.com/grailbio/bigslice/sliceio"
	"github.com/grailbio/bigslice/typecheck"
	"verifharness/internal/vf"
)

// C18 — operator constructors accept exactly the documented type schemas.
// An independent table (the functions exp* below) states each documented schema; the
// constructors are called with the cross product of a slice-type universe and a
// function-signature universe built with reflect.MakeFunc.

func init() { Registry["C18"] = runC18 }

var (
	tInt     = reflect.TypeOf(int(0))
	tInt64   = reflect.TypeOf(int64(0))
	tInt32   = reflect.TypeOf(int32(0))
	tString  = reflect.TypeOf("")
	tBool    = reflect.TypeOf(false)
	tFloat   = reflect.TypeOf(float64(0))
	tError   = reflect.TypeOf((*error)(nil)).Elem()
	tCtx     = reflect.TypeOf((*context.Context)(nil)).Elem()
	tIface   = reflect.TypeOf((*interface{})(nil)).Elem()
	tInts    = reflect.TypeOf([]int(nil))
	tStrings = reflect.TypeOf([]string(nil))
	tPlain   = reflect.TypeOf(PlainStruct{})
)

type c18slice struct {
	Name   string
	Cols   []reflect.Type
	Prefix int
	Shards int
}

var c18slices = []c18slice{
	{"<int>", []reflect.Type{tInt}, 1, 1},
	{"<int,string>", []reflect.Type{tInt, tString}, 1, 2},
	{"<string,int>", []reflect.Type{tString, tInt}, 1, 3},
	{"<int,int64>", []reflect.Type{tInt, tInt64}, 1, 2},
	{"<string,int,float64>", []reflect.Type{tString, tInt, tFloat}, 1, 1},
	{"<int,string,int64>/2", []reflect.Type{tInt, tString, tInt64}, 2, 4},
	{"<[]int,int>", []reflect.Type{tInts, tInt}, 1, 2},
	{"<plain,int>", []reflect.Type{tPlain, tInt}, 1, 2},
	{"<int,plain>", []reflect.Type{tInt, tPlain}, 1, 2},
	{"<bool,int64>", []reflect.Type{tBool, tInt64}, 1, 2},
	{"<int64,string>", []reflect.Type{tInt64, tString}, 1, 5},
	{"<int32,int32>", []reflect.Type{tInt32, tInt32}, 1, 2},
	{"<string,string>/2", []reflect.Type{tString, tString}, 2, 2},
	// key prefixes whose later key columns cannot be hashed or compared
	{"<int,[]int,int64>/2", []reflect.Type{tInt, tInts, tInt64}, 2, 2},
	{"<int,plain,int>/2", []reflect.Type{tInt, tPlain, tInt}, 2, 3},
	{"<string,string,[]string>/3", []reflect.Type{tString, tString, tStrings}, 3, 2},
	{"<int,string,int64>/3", []reflect.Type{tInt, tString, tInt64}, 3, 2},
	{"<[]int,int,int>/2", []reflect.Type{tInts, tInt, tInt}, 2, 2},
	// last column of a slice type: the parameter list of a variadic function (int, ...string) is
	// recorded as (int, []string) and looks exactly like these columns, which it cannot take
	{"<int,[]string>", []reflect.Type{tInt, tStrings}, 1, 2},
	{"<[]int>", []reflect.Type{tInts}, 1, 1},
}

func (s c18slice) build() bigslice.Slice {
	cols := make([]interface{}, len(s.Cols))
	for i, t := range s.Cols {
		cols[i] = reflect.MakeSlice(reflect.SliceOf(t), 0, 0).Interface()
	}
	sl := bigslice.Const(s.Shards, cols...)
	if s.Prefix > 1 {
		sl = bigslice.Prefixed(sl, s.Prefix)
	}
	return sl
}

type c18sig struct {
	Ctx      bool
	In       []reflect.Type
	Out      []reflect.Type
	Variadic bool
	NonFunc  any // if set, this value is passed instead of a function
}

func (g c18sig) String() string {
	if g.NonFunc != nil {
		return fmt.Sprintf("non-func %T", g.NonFunc)
	}
	return g.typ().String()
}

func (g c18sig) typ() reflect.Type {
	in := g.In
	if g.Ctx {
		in = append([]reflect.Type{tCtx}, in...)
	}
	return reflect.FuncOf(in, g.Out, g.Variadic)
}

func (g c18sig) value() any {
	if g.NonFunc != nil {
		return g.NonFunc
	}
	t := g.typ()
	return reflect.MakeFunc(t, func(args []reflect.Value) []reflect.Value {
		out := make([]reflect.Value, t.NumOut())
		for i := range out {
			out[i] = reflect.Zero(t.Out(i))
		}
		return out
	}).Interface()
}

func typesEq(a, b []reflect.Type) bool {
	if len(a) != len(b) {
		return false
	}
	for i := range a {
		if a[i] != b[i] {
			return false
		}
	}
	return true
}

// canApply is the documented argument rule: "the type of slice must match the arguments of
// the function" -- one parameter per column (each column assignable to its parameter), with a
// trailing variadic parameter absorbing zero or more columns.
func canApply(g c18sig, cols []reflect.Type) bool {
	in := g.In
	if g.Variadic {
		if len(cols) < len(in)-1 {
			return false
		}
		for i := 0; i < len(in)-1; i++ {
			if !cols[i].AssignableTo(in[i]) {
				return false
			}
		}
		el := in[len(in)-1].Elem()
		for i := len(in) - 1; i < len(cols); i++ {
			if !cols[i].AssignableTo(el) {
				return false
			}
		}
		return true
	}
	if len(in) != len(cols) {
		return false
	}
	for i := range in {
		if !cols[i].AssignableTo(in[i]) {
			return false
		}
	}
	return true
}

func keyOK(t reflect.Type) bool { return frame.CanHash(t) && frame.CanCompare(t) }

type c18expect struct {
	Defined bool // false: the documentation does not settle this combination; only panic shape is checked
	Accept  bool
	Out     []reflect.Type
	Prefix  int
	Shards  int
	Why     string
}

func expUndefined(why string) c18expect { return c18expect{Why: why} }
func expReject(why string) c18expect    { return c18expect{Defined: true, Why: why} }
func expAccept(out []reflect.Type, prefix, shards int) c18expect {
	return c18expect{Defined: true, Accept: true, Out: out, Prefix: prefix, Shards: shards}
}

// The schema table.
func c18expected(cons string, s c18slice, g c18sig) c18expect {
	n := len(s.Cols)
	isFunc := g.NonFunc == nil
	switch cons {
	case "Map":
		if !isFunc {
			return expReject("not a function")
		}
		if !canApply(g, s.Cols) {
			return expReject("arguments do not match the slice type")
		}
		if len(g.Out) == 0 {
			return expReject("no output columns")
		}
		return expAccept(g.Out, 1, s.Shards)
	case "Filter":
		if !isFunc {
			return expReject("not a function")
		}
		if !canApply(g, s.Cols) {
			return expReject("arguments do not match")
		}
		if len(g.Out) != 1 || g.Out[0].Kind() != reflect.Bool {
			return expReject("predicate must return a single boolean")
		}
		return expAccept(s.Cols, s.Prefix, s.Shards)
	case "Flatmap":
		if !isFunc {
			return expReject("not a function")
		}
		if !canApply(g, s.Cols) {
			return expReject("arguments do not match")
		}
		var out []reflect.Type
		for _, o := range g.Out {
			if o.Kind() != reflect.Slice {
				return expReject("results must be slices")
			}
			out = append(out, o.Elem())
		}
		if len(out) == 0 {
			return expUndefined("a flatmap function without results is not covered by the documentation")
		}
		return expAccept(out, 1, s.Shards)
	case "Fold":
		if n < 2 {
			return expReject("needs at least two columns")
		}
		if !frame.CanHash(s.Cols[0]) {
			return expReject("first column must be partitionable")
		}
		switch s.Cols[0].Kind() {
		case reflect.String, reflect.Int, reflect.Int64:
		default:
			return expUndefined("accumulator support for this key kind is not documented")
		}
		// BUG(marius) in the Fold doc says that grouping by a wider prefix is not supported at run
		// time; the documented signature (func(acc, t2, ..., tn) acc) does not depend on the prefix,
		// and is what is judged here (the key prefix of the result is left open, as for Map)
		if !isFunc {
			return expReject("not a function")
		}
		if len(g.Out) != 1 {
			return expReject("must return exactly one value")
		}
		want := append([]reflect.Type{g.Out[0]}, s.Cols[1:]...)
		if !typesEq(g.In, want) {
			return expReject("expected func(acc, t2, ..., tn) acc")
		}
		if g.Variadic {
			return expUndefined("variadic fold functions are not covered by the documentation")
		}
		return expAccept([]reflect.Type{s.Cols[0], g.Out[0]}, 1, s.Shards)
	case "Reduce":
		if n-s.Prefix != 1 {
			return expReject("exactly one residual column required")
		}
		for i := 0; i < s.Prefix; i++ {
			if !keyOK(s.Cols[i]) {
				return expReject("key not hashable/comparable")
			}
		}
		if !isFunc {
			return expReject("not a function")
		}
		v := s.Cols[n-1]
		if !typesEq(g.In, []reflect.Type{v, v}) || !typesEq(g.Out, []reflect.Type{v}) {
			return expReject("expected func(v, v) v")
		}
		if g.Variadic {
			return expUndefined("variadic")
		}
		return expAccept(s.Cols, s.Prefix, s.Shards)
	case "Repartition":
		if !isFunc {
			return expReject("not a function")
		}
		if !typesEq(g.In, append([]reflect.Type{tInt}, s.Cols...)) || !typesEq(g.Out, []reflect.Type{tInt}) {
			return expReject("expected func(nshard int, t1..tn) int")
		}
		if g.Variadic {
			return expUndefined("variadic")
		}
		return expAccept(s.Cols, s.Prefix, s.Shards)
	case "WriterFunc":
		if !isFunc {
			return expReject("not a function")
		}
		if len(g.In) != 3+n || g.In[0].Kind() != reflect.Int || g.In[2] != tError {
			return expReject("expected func(shard int, state, err error, cols...) error")
		}
		for i, c := range s.Cols {
			if g.In[3+i] != reflect.SliceOf(c) {
				return expReject("column slices do not match")
			}
		}
		if !typesEq(g.Out, []reflect.Type{tError}) {
			return expReject("must return error")
		}
		if g.Variadic {
			return expUndefined("variadic")
		}
		return expAccept(s.Cols, s.Prefix, s.Shards)
	case "ReaderFunc":
		// the slice argument is unused: the schema is on the function alone
		if !isFunc {
			return expReject("not a function")
		}
		if len(g.In) < 3 || g.In[0].Kind() != reflect.Int {
			return expReject("expected func(shard int, state, cols...)")
		}
		var out []reflect.Type
		for _, c := range g.In[2:] {
			if c.Kind() != reflect.Slice {
				return expReject("columns must be slices")
			}
			out = append(out, c.Elem())
		}
		if len(g.Out) != 2 || g.Out[0].Kind() != reflect.Int || g.Out[1] != tError {
			return expReject("must return (int, error)")
		}
		if g.Variadic {
			return expUndefined("variadic")
		}
		return expAccept(out, 1, 3)
	}
	panic(cons)
}

type c18case struct {
	Cons  string `json:"constructor"`
	Slice string `json:"slice"`
	Sig   string `json:"signature"`
	si    int
	g     c18sig
}

var c18file string

// call invokes the constructor; the constructor call must be on the line after runtime.Caller.
func c18call(cons string, sl bigslice.Slice, fn any) (res bigslice.Slice, line int) {
	switch cons {
	case "Map":
		_, c18file, line, _ = runtime.Caller(0)
		res = bigslice.Map(sl, fn)
	case "Filter":
		_, c18file, line, _ = runtime.Caller(0)
		res = bigslice.Filter(sl, fn)
	case "Flatmap":
		_, c18file, line, _ = runtime.Caller(0)
		res = bigslice.Flatmap(sl, fn)
	case "Fold":
		_, c18file, line, _ = runtime.Caller(0)
		res = bigslice.Fold(sl, fn)
	case "Reduce":
		_, c18file, line, _ = runtime.Caller(0)
		res = bigslice.Reduce(sl, fn)
	case "Repartition":
		_, c18file, line, _ = runtime.Caller(0)
		res = bigslice.Repartition(sl, fn)
	case "WriterFunc":
		_, c18file, line, _ = runtime.Caller(0)
		res = bigslice.WriterFunc(sl, fn)
	case "ReaderFunc":
		_, c18file, line, _ = runtime.Caller(0)
		res = bigslice.ReaderFunc(3, fn)
	}
	return
}

func sliceShape(s bigslice.Slice) ([]reflect.Type, int, int) {
	out := make([]reflect.Type, s.NumOut())
	for i := range out {
		out[i] = s.Out(i)
	}
	return out, s.Prefix(), s.NumShard()
}

func runC18call(t *vf.T, cons string, s c18slice, g c18sig) {
	exp := c18expected(cons, s, g)
	sl := s.build()
	var res bigslice.Slice
	var line int
	var pv any
	func() {
		defer func() { pv = recover() }()
		res, line = c18call(cons, sl, g.value())
	}()
	// line holds the Caller line only if the constructor returned; recompute for panics
	sig := fmt.Sprintf("%s(%s, %s)", cons, s.Name, g)
	class := cons
	if pv != nil {
		te, ok := pv.(*typecheck.Error)
		if !ok {
			t.Violate(class+" panic-not-typecheck-error "+vf.Hash(fmt.Sprintf("%T", pv)), fmt.Sprintf("%s panicked with %T (%v), not a *typecheck.Error", sig, pv, pv))
			return
		}
		if te.File != c18file || !strings.HasSuffix(te.File, "c18.go") {
			t.Violate(class+" error-location-file", fmt.Sprintf("%s: error attributed to %s:%d, the caller is in %s", sig, te.File, te.Line, c18file))
			return
		}
		// the call is on the line after the runtime.Caller line recorded last
		if te.Line != c18lastLine()+1 {
			t.Violate(class+" error-location-line", fmt.Sprintf("%s: error attributed to line %d, the call is on line %d", sig, te.Line, c18lastLine()+1))
			return
		}
		t.Count("rejected", 1)
		if exp.Defined && exp.Accept {
			t.Violate(class+" rejects-documented-form", fmt.Sprintf("%s is well-typed by the documented schema but was rejected: %v", sig, te.Err))
		}
		return
	}
	_ = line
	t.Count("accepted", 1)
	if exp.Defined && !exp.Accept {
		t.Violate(class+" accepts-ill-typed", fmt.Sprintf("%s was accepted; the documented schema rejects it (%s)", sig, exp.Why))
		return
	}
	if exp.Defined && exp.Accept {
		out, prefix, shards := sliceShape(res)
		if (cons == "Map" || cons == "Flatmap" || cons == "Fold") && s.Prefix > 1 {
			// The documentation does not say whether a mapped slice inherits the key prefix of its
			// input; only a prefix that exceeds the number of columns is ill-formed.
			if prefix > len(out) {
				t.Violate(class+" prefix-exceeds-columns", fmt.Sprintf("%s returned %d column(s) %v with key prefix %d", sig, len(out), out, prefix))
				return
			}
			exp.Prefix = prefix
		}
		if !typesEq(out, exp.Out) || prefix != exp.Prefix || shards != exp.Shards {
			t.Violate(class+" result-shape", fmt.Sprintf("%s returned columns %v prefix %d shards %d; documented: %v prefix %d shards %d", sig, out, prefix, shards, exp.Out, exp.Prefix, exp.Shards))
		}
	}
	if !exp.Defined {
		t.Count("undefined_by_docs", 1)
	}
}

var c18line int

func c18lastLine() int { return c18line }

func c18sigs(s c18slice) []c18sig {
	cols := s.Cols
	var ins [][]reflect.Type
	add := func(ts ...reflect.Type) { ins = append(ins, append([]reflect.Type{}, ts...)) }
	add(cols...)
	add()
	add(cols[:len(cols)-1]...)
	add(append(append([]reflect.Type{}, cols...), tInt)...)
	if len(cols) > 1 {
		rev := make([]reflect.Type, len(cols))
		for i := range cols {
			rev[len(cols)-1-i] = cols[i]
		}
		add(rev...)
	}
	swapped := append([]reflect.Type{}, cols...)
	if swapped[0] == tString {
		swapped[0] = tInt
	} else {
		swapped[0] = tString
	}
	add(swapped...)
	ifs := make([]reflect.Type, len(cols))
	for i := range ifs {
		ifs[i] = tIface
	}
	add(ifs...)
	for _, acc := range []reflect.Type{tInt64, tString, tInt} {
		add(append([]reflect.Type{acc}, cols[1:]...)...)
	}
	add(append([]reflect.Type{tInt}, cols...)...)
	add(append([]reflect.Type{tInt64}, cols...)...)
	// a context parameter in a non-leading position is an ordinary (mismatching) parameter
	add(append(append([]reflect.Type{}, cols...), tCtx)...)
	add(append([]reflect.Type{cols[0], tCtx}, cols[1:]...)...)
	last := cols[len(cols)-1]
	add(last, last)
	add(last, last, last)
	// writer-func shaped
	wf := []reflect.Type{tInt, tInt, tError}
	for _, c := range cols {
		wf = append(wf, reflect.SliceOf(c))
	}
	add(wf...)
	add(wf[:len(wf)-1]...)
	wf2 := append([]reflect.Type{}, wf...)
	wf2[2] = tString
	add(wf2...)
	wf3 := append([]reflect.Type{}, wf...)
	wf3[0] = tString
	add(wf3...)
	// reader-func shaped
	rf := []reflect.Type{tInt, tString}
	for _, c := range cols {
		rf = append(rf, reflect.SliceOf(c))
	}
	add(rf...)
	add(rf[:2]...)
	rf2 := append([]reflect.Type{}, rf...)
	rf2[len(rf2)-1] = tInt
	add(rf2...)
	outs := [][]reflect.Type{{}, {tBool}, {tInt}, {tInt64}, {tString}, {last}, {tInts}, {tStrings, tInts}, {tInt, tString}, {tBool, tBool}, {tError}, {tInt, tError}, {tInt, tError, tInt}, {tInt}, {tInt64, tError}}
	var sigs []c18sig
	for _, in := range ins {
		for _, out := range outs {
			sigs = append(sigs, c18sig{In: in, Out: out})
			sigs = append(sigs, c18sig{Ctx: true, In: in, Out: out})
		}
	}
	// variadic forms
	for _, out := range [][]reflect.Type{{tBool}, {tInt}, {tInts}} {
		sigs = append(sigs, c18sig{In: []reflect.Type{reflect.SliceOf(tIface)}, Out: out, Variadic: true})
		sigs = append(sigs, c18sig{In: []reflect.Type{cols[0], reflect.SliceOf(tIface)}, Out: out, Variadic: true})
		sigs = append(sigs, c18sig{In: []reflect.Type{cols[0], reflect.SliceOf(last)}, Out: out, Variadic: true})
		sigs = append(sigs, c18sig{In: append(append([]reflect.Type{}, cols...), reflect.SliceOf(tInt)), Out: out, Variadic: true})
		sigs = append(sigs, c18sig{In: append(append([]reflect.Type{}, cols...), tInt, reflect.SliceOf(tInt)), Out: out, Variadic: true})
		if last.Kind() == reflect.Slice {
			// the variadic parameter has the type of the last column itself (...T over a []T column)
			sigs = append(sigs, c18sig{In: append([]reflect.Type{}, cols...), Out: out, Variadic: true})
			sigs = append(sigs, c18sig{Ctx: true, In: append([]reflect.Type{}, cols...), Out: out, Variadic: true})
			// and the well-typed neighbour: ...[]T takes the []T column
			sigs = append(sigs, c18sig{In: append(append([]reflect.Type{}, cols[:len(cols)-1]...), reflect.SliceOf(last)), Out: out, Variadic: true})
		}
	}
	for _, v := range []any{3, "x", struct{}{}, []int{1}} {
		sigs = append(sigs, c18sig{NonFunc: v})
	}
	return sigs
}

var c18constructors = []string{"Map", "Filter", "Flatmap", "Fold", "Reduce", "Repartition", "WriterFunc", "ReaderFunc"}

func runC18(r *vf.Runner) {
	// Function-taking constructors: exhaustive cross product.
	for _, cons := range c18constructors {
		for si, s := range c18slices {
			if cons == "ReaderFunc" && si > 2 {
				// the slice is irrelevant for ReaderFunc; three signature families suffice
				continue
			}
			sigs := c18sigs(s)
			// one Case per (constructor, slice type): the descriptor lists how many signatures
			desc := map[string]any{"constructor": cons, "slice": s.Name, "signatures": len(sigs)}
			s := s
			cons := cons
			r.Case(desc, func(t *vf.T) {
				for _, g := range sigs {
					c18line = c18callLine(cons)
					runC18call(t, cons, s, g)
					t.Count("calls", 1)
					t.Seen("triples", vf.Hash(cons+s.Name+g.String()))
				}
				t.Nontrivial("")
			})
		}
	}
	// Constructors without function arguments.
	r.Case(map[string]any{"constructor": "structural"}, func(t *vf.T) { runC18structural(t) })
}

// c18callLine finds the line of the runtime.Caller statement preceding the constructor call.
var c18lines = map[string]int{}

func c18callLine(cons string) int {
	if l, ok := c18lines[cons]; ok {
		return l
	}
	// calibrate with a well-typed call
	var l int
	switch cons {
	case "Map":
		_, l = c18call(cons, c18slices[0].build(), func(int) int { return 0 })
	case "Filter":
		_, l = c18call(cons, c18slices[0].build(), func(int) bool { return false })
	case "Flatmap":
		_, l = c18call(cons, c18slices[0].build(), func(int) []int { return nil })
	case "Fold":
		_, l = c18call(cons, c18slices[1].build(), func(a int, s string) int { return 0 })
	case "Reduce":
		_, l = c18call(cons, c18slices[3].build(), func(a, b int64) int64 { return 0 })
	case "Repartition":
		_, l = c18call(cons, c18slices[0].build(), func(n, v int) int { return 0 })
	case "WriterFunc":
		_, l = c18call(cons, c18slices[0].build(), func(shard int, st int, err error, c []int) error { return nil })
	case "ReaderFunc":
		_, l = c18call(cons, nil, func(shard int, st int, c []int) (int, error) { return 0, sliceio.EOF })
	}
	c18lines[cons] = l
	return l
}

// structural: Const, Prefixed, Head, Scan, Reshuffle, Reshard, Cogroup.
func runC18structural(t *vf.T) {
	expectPanic := func(name string, want bool, f func() bigslice.Slice, check func(bigslice.Slice) string) {
		var pv any
		var res bigslice.Slice
		var line int
		func() {
			defer func() { pv = recover() }()
			_, _, line, _ = runtime.Caller(0)
			res = f()
		}()
		_ = line
		t.Count("calls", 1)
		t.Seen("triples", vf.Hash(name))
		if pv != nil {
			te, ok := pv.(*typecheck.Error)
			if !ok {
				t.Violate("structural panic-not-typecheck-error "+strings.Fields(name)[0], fmt.Sprintf("%s panicked with %T (%v)", name, pv, pv))
				return
			}
			if !strings.HasSuffix(te.File, "c18.go") {
				t.Violate("structural error-location-file "+strings.Fields(name)[0], fmt.Sprintf("%s: error attributed to %s:%d", name, te.File, te.Line))
				return
			}
			t.Count("rejected", 1)
			if !want {
				t.Violate("structural rejects-documented-form "+strings.Fields(name)[0], fmt.Sprintf("%s rejected: %v", name, te.Err))
			}
			return
		}
		t.Count("accepted", 1)
		if want {
			t.Violate("structural accepts-ill-typed "+strings.Fields(name)[0], name+" was accepted")
			return
		}
		if check != nil {
			if d := check(res); d != "" {
				t.Violate("structural result-shape "+strings.Fields(name)[0], name+": "+d)
			}
		}
	}
	shape := func(out []reflect.Type, prefix, shards int) func(bigslice.Slice) string {
		return func(s bigslice.Slice) string {
			o, p, n := sliceShape(s)
			if !typesEq(o, out) || (prefix >= 0 && p != prefix) || n != shards {
				return fmt.Sprintf("columns %v prefix %d shards %d; documented %v %d %d", o, p, n, out, prefix, shards)
			}
			return ""
		}
	}
	expectPanic("Const no columns", true, func() bigslice.Slice { return bigslice.Const(1) }, nil)
	expectPanic("Const 0 shards", true, func() bigslice.Slice { return bigslice.Const(0, []int{1}) }, nil)
	expectPanic("Const non-slice column", true, func() bigslice.Slice { return bigslice.Const(1, 3) }, nil)
	expectPanic("Const non-slice second column", true, func() bigslice.Slice { return bigslice.Const(1, []int{1}, "x") }, nil)
	expectPanic("Const ok", false, func() bigslice.Slice { return bigslice.Const(4, []int{1}, []string{"a"}) }, shape([]reflect.Type{tInt, tString}, 1, 4))
	for _, s := range c18slices {
		s := s
		n := len(s.Cols)
		for k := -1; k <= n+1; k++ {
			k := k
			expectPanic(fmt.Sprintf("Prefixed %s %d", s.Name, k), k < 1 || k > n, func() bigslice.Slice { return bigslice.Prefixed(s.build(), k) }, shape(s.Cols, k, s.Shards))
		}
		expectPanic("Head "+s.Name, false, func() bigslice.Slice { return bigslice.Head(s.build(), 3) }, shape(s.Cols, s.Prefix, s.Shards))
		expectPanic("Scan "+s.Name, false, func() bigslice.Slice {
			return bigslice.Scan(s.build(), func(int, *sliceio.Scanner) error { return nil })
		}, shape(nil, -1, s.Shards))
		keys := true
		for i := 0; i < s.Prefix; i++ {
			keys = keys && keyOK(s.Cols[i])
		}
		expectPanic("Reshuffle "+s.Name, !keys, func() bigslice.Slice { return bigslice.Reshuffle(s.build()) }, shape(s.Cols, s.Prefix, s.Shards))
		expectPanic("Reshard "+s.Name, !keys, func() bigslice.Slice { return bigslice.Reshard(s.build(), 7) }, shape(s.Cols, s.Prefix, 7))
		expectPanic("Reshard-same "+s.Name, !keys, func() bigslice.Slice { return bigslice.Reshard(s.build(), s.Shards) }, shape(s.Cols, s.Prefix, s.Shards))
		// Cogroup of pairs
		for _, s2 := range c18slices {
			s2 := s2
			ok := keys && s.Prefix == s2.Prefix && len(s2.Cols) >= s2.Prefix
			if ok {
				for i := 0; i < s.Prefix; i++ {
					ok = ok && s.Cols[i] == s2.Cols[i]
				}
			}
			out := append([]reflect.Type{}, s.Cols[:s.Prefix]...)
			for _, x := range []c18slice{s, s2} {
				for _, c := range x.Cols[x.Prefix:] {
					out = append(out, reflect.SliceOf(c))
				}
			}
			shards := s.Shards
			if s2.Shards > shards {
				shards = s2.Shards
			}
			expectPanic(fmt.Sprintf("Cogroup %s %s", s.Name, s2.Name), !ok, func() bigslice.Slice { return bigslice.Cogroup(s.build(), s2.build()) }, shape(out, s.Prefix, shards))
		}
		out1 := append([]reflect.Type{}, s.Cols[:s.Prefix]...)
		for _, c := range s.Cols[s.Prefix:] {
			out1 = append(out1, reflect.SliceOf(c))
		}
		expectPanic("Cogroup1 "+s.Name, !keys, func() bigslice.Slice { return bigslice.Cogroup(s.build()) }, shape(out1, s.Prefix, s.Shards))
	}
	expectPanic("Cogroup none", true, func() bigslice.Slice { return bigslice.Cogroup() }, nil)
	t.Nontrivial("")
}
