package props

import (
	"context"
	"fmt"
	"strings"
	"sync"
	"time"

	"github.com/grailbio/bigslice"
	"github.com/grailbio/bigslice/exec"
	"verifharness/internal/vf"
)

// C12 — results can be reused, rescanned and discarded without changing their rows.

func init() { Registry["C12"] = runC12 }

type c12op struct {
	Op   string `json:"op"` // scan derive discard kill
	R    int    `json:"r"`  // which result
	R2   int    `json:"r2,omitempty"`
	Conc bool   `json:"conc,omitempty"` // run concurrently with the next operation
	Spec *Spec  `json:"spec,omitempty"` // derive: the program consuming result R (arg 0) and R2 (arg 1)
	K    int    `json:"k,omitempty"`    // scan: number of concurrent scanners
}

type c12case struct {
	Conf sessConf `json:"conf"`
	Base Spec     `json:"base"`
	Ops  []c12op  `json:"ops"`
	Seed uint64   `json:"seed"`
}

type c12result struct {
	res      *exec.Result
	want     *rel
	damaged  bool         // discarded or possibly lost since it was computed
	parents  []*c12result // results whose tasks are part of this result's task graph
	children []*c12result // results derived from this one
}

// damage marks r as possibly without data. Discard discards the whole task subgraph of a result,
// hence all its ancestors; and a derived result whose root tasks are (or pipeline directly over)
// tasks of r loses data with r, so descendants count as possibly damaged too.
func (r *c12result) damage() {
	// everything that shares tasks with r: its ancestors, and every descendant of those
	anc := map[*c12result]bool{}
	var up func(x *c12result)
	up = func(x *c12result) {
		if anc[x] {
			return
		}
		anc[x] = true
		for _, p := range x.parents {
			up(p)
		}
	}
	up(r)
	seen := map[*c12result]bool{}
	var down func(x *c12result)
	down = func(x *c12result) {
		if seen[x] {
			return
		}
		seen[x] = true
		x.damaged = true
		for _, c := range x.children {
			down(c)
		}
	}
	for a := range anc {
		down(a)
	}
}

func isGiveUp(err error) bool {
	if err == nil {
		return false
	}
	s := err.Error()
	return strings.Contains(s, "consecutive") || strings.Contains(s, "too many tries") || strings.Contains(s, "gave up")
}

func runC12case(t *vf.T, c c12case) {
	ls := startSession(c.Conf)
	defer ls.Close()
	run := fmt.Sprintf("c12-%d", t.Index())
	defer func() {
		probes.Range(func(k, _ any) bool {
			if strings.HasPrefix(k.(string), run) {
				probes.Delete(k)
			}
			return true
		})
	}()
	ex := c.Conf.Kind
	base := c.Base
	base.Run = run + "-base"
	want0, _, err := evalSpec(&base, nil)
	if err != nil || want0.Weak || len(want0.Kinds) == 0 {
		return
	}
	out := runSpec(ls, base, [2]bigslice.Slice{}, true, 120*time.Second)
	if out.TimedOut {
		t.Inconclusive("watchdog in base run")
		return
	}
	if (out.RunErr != nil || out.ScanErr != nil) && out.Panic == nil && ls.lossesNotCausedByMonitor(0, true) {
		t.Count("operations_judged_as_after_a_loss_not_caused_by_the_monitor", 1)
		return
	}
	if out.RunErr != nil || out.ScanErr != nil || out.Panic != nil {
		t.Violate("base-run-failed exec="+ex, fmt.Sprintf("run: %v scan: %v panic: %v | %s | library log: %s", out.RunErr, out.ScanErr, out.Panic, specString(&base), logTail(12)))
		return
	}
	if d := compareResult(out.Rows, want0); d != "" {
		t.Violate("base-rows exec="+ex, d)
		return
	}
	results := []*c12result{{res: out.Res, want: want0}}
	var mu sync.Mutex
	killed := false
	nkilled := 0 // machines killed by this monitor
	// envLoss: the executor lost a machine that the monitor did not kill (keepalive timeout on a
	// starved host): from then on the session is in a machine-loss scenario like after a kill
	envLoss := func(settle bool) bool {
		mu.Lock()
		n := nkilled
		mu.Unlock()
		if ls.lossesNotCausedByMonitor(n, settle) {
			t.Count("operations_judged_as_after_a_loss_not_caused_by_the_monitor", 1)
			return true
		}
		return false
	}
	var wg sync.WaitGroup
	violate := func(sig, what string) {
		mu.Lock()
		defer mu.Unlock()
		t.Violate(sig, what)
	}
	timedOut := false
	doScan := func(i int, r *c12result, k int, after string) {
		var swg sync.WaitGroup
		for j := 0; j < k; j++ {
			swg.Add(1)
			go func() {
				defer swg.Done()
				done := make(chan struct{})
				var rows []row
				var err error
				go func() {
					defer close(done)
					defer func() {
						if e := recover(); e != nil {
							err = fmt.Errorf("panic: %v", e)
							violate("scan-panic exec="+ex, fmt.Sprintf("scan of result %d panicked: %v at %s", i, e, panicSiteNow()))
						}
					}()
					rows, err = scanRows(bgctx, r.res)
				}()
				select {
				case <-done:
				case <-time.After(90 * time.Second):
					mu.Lock()
					timedOut = true
					mu.Unlock()
					dumpGoroutines("c12-scan-" + run)
					return
				}
				mu.Lock()
				dmg := r.damaged || killed
				mu.Unlock()
				if err != nil && !dmg {
					dmg = envLoss(true)
				}
				if err != nil {
					if !dmg {
						violate("scan-error-on-intact-result exec="+ex, fmt.Sprintf("scan %s of result %d failed although nothing was discarded or lost: %v", after, i, err))
					} else {
						t.Count("scans_that_reported_error_after_discard_or_loss", 1)
					}
					return
				}
				if d := compareResult(rows, r.want); d != "" {
					state := "intact"
					if dmg {
						state = "discarded-or-lost"
					}
					violate(fmt.Sprintf("scan-rows-differ result=%s exec=%s", state, ex), fmt.Sprintf("scan %s of result %d: %s", after, i, d))
					return
				}
				t.Count("scans_ok", 1)
				if dmg {
					t.Count("scans_ok_after_discard_or_loss", 1)
				}
			}()
		}
		swg.Wait()
	}
	reuse := 0
	for oi, op := range c.Ops {
		oi, op := oi, op // the step closure may run concurrently with later iterations
		if t.Failed() {
			break
		}
		if op.R >= len(results) {
			op.R = len(results) - 1
		}
		if op.R2 >= len(results) {
			op.R2 = len(results) - 1
		}
		r := results[op.R]
		step := func() {
			switch op.Op {
			case "scan":
				k := op.K
				if k < 1 {
					k = 1
				}
				if k >= 2 {
					t.Count("concurrent_scan_groups", 1)
				}
				doScan(op.R, r, k, fmt.Sprintf("(step %d)", oi))
			case "rediscard":
				// R (a result with combining tasks, slowed down) has been discarded; a Func over it
				// recomputes it, and while the consumer side of the recomputation is running, R is
				// discarded again: the tasks that have not yet opened their (combined) inputs find
				// them gone. They must be treated as lost and recomputed, not as failed.
				sp := *op.Spec
				sp.Run = fmt.Sprintf("%s-rd%d", run, oi)
				want, _, err := evalSpec(&sp, []*rel{r.want, r.want})
				if err != nil {
					return
				}
				mu.Lock()
				r.damage()
				mu.Unlock()
				r.res.Discard(bgctx)
				// the combiner of the base program's reduce (node 1) is called by the producer tasks
				// and then by the consumer tasks: the second discard comes when K percent of the calls
				// of one evaluation have been made again
				node := 1
				before := callsOf(base.Run, node)
				target := before + before*int64(op.K)/100
				dDone := make(chan runOutcome, 1)
				go func() { dDone <- runSpec(ls, sp, [2]bigslice.Slice{r.res, r.res}, true, 120*time.Second) }()
				seen := false
				for i := 0; i < 3000; i++ {
					if callsOf(base.Run, node) >= target {
						seen = true
						break
					}
					time.Sleep(2 * time.Millisecond)
				}
				r.res.Discard(bgctx)
				t.Count("discards", 2)
				if seen {
					t.Count("discards_during_the_recomputation_of_the_discarded_result", 1)
				}
				o := <-dDone
				switch {
				case o.TimedOut:
					mu.Lock()
					timedOut = true
					mu.Unlock()
				case o.Panic != nil:
					violate("derive-panic exec="+ex, fmt.Sprintf("%v at %s", o.Panic, o.PanicAt))
				case o.RunErr == nil && o.ScanErr != nil:
					t.Count("scans_that_reported_error_after_discard_or_loss", 1)
				case o.RunErr != nil:
					if envLoss(true) {
						t.Count("give_ups_after_kill", 1)
						return
					}
					violate(fmt.Sprintf("derive-failed arg=discarded-during-recomputation ops=%s exec=%s", opSig(&sp), ex), fmt.Sprintf("result %d was discarded again while a Func over it was recomputing it; the Func failed instead of recomputing: %v | library log: %s", op.R, o.RunErr, logTail(12)))
				default:
					if d := compareResult(o.Rows, want); d != "" {
						violate(fmt.Sprintf("derive-rows-differ ops=%s exec=%s", opSig(&sp), ex), fmt.Sprintf("Func over result %d discarded during its recomputation: %s", op.R, d))
						return
					}
					t.Count("derived_runs_ok", 1)
					t.Count("recomputations_after_discard_or_loss", 1)
					reuse++
				}
			case "blockedderive":
				// The session's only proc is held by a slow run while a Func over result R is started;
				// R is discarded while that Func's tasks wait for the proc. They then find their input
				// gone: it must be recomputed, the Func must succeed with the reference rows.
				slow := Spec{Run: fmt.Sprintf("%s-slow%d", run, oi), Delay: 30000, Nodes: []PNode{
					{Op: "const", Shards: 1, Rows: 320, Out: []string{"int", "int64"}, Salt: 9, Mod: 50},
					{Op: "map", In: []int{0}, Out: []string{"int", "int64"}, Src: []int{0, 1}, Salt: 1}}}
				slowDone := make(chan runOutcome, 1)
				go func() { slowDone <- runSpec(ls, slow, [2]bigslice.Slice{}, false, 120*time.Second) }()
				for i := 0; i < 500 && callsOf(slow.Run, 1) == 0; i++ {
					time.Sleep(10 * time.Millisecond)
				}
				sp := *op.Spec
				sp.Run = fmt.Sprintf("%s-b%d", run, oi)
				want, _, err := evalSpec(&sp, []*rel{r.want, r.want})
				if err != nil {
					return
				}
				dDone := make(chan runOutcome, 1)
				go func() { dDone <- runSpec(ls, sp, [2]bigslice.Slice{r.res, r.res}, true, 120*time.Second) }()
				time.Sleep(150 * time.Millisecond)
				stillHeld := false
				select {
				case so := <-slowDone:
					slowDone <- so
				default:
					stillHeld = true
				}
				mu.Lock()
				r.damage()
				mu.Unlock()
				r.res.Discard(bgctx)
				t.Count("discards", 1)
				if stillHeld {
					t.Count("discards_while_a_consumer_waited_for_a_proc", 1)
				}
				o := <-dDone
				so := <-slowDone
				if so.TimedOut || o.TimedOut {
					mu.Lock()
					timedOut = true
					mu.Unlock()
					return
				}
				switch {
				case o.Panic != nil:
					violate("derive-panic exec="+ex, fmt.Sprintf("%v at %s", o.Panic, o.PanicAt))
				case o.RunErr == nil && o.ScanErr != nil:
					t.Count("scans_that_reported_error_after_discard_or_loss", 1)
				case o.RunErr != nil:
					if envLoss(true) {
						t.Count("give_ups_after_kill", 1)
						return
					}
					violate(fmt.Sprintf("derive-failed arg=discarded-while-consumer-waited ops=%s exec=%s", opSig(&sp), ex), fmt.Sprintf("result %d was discarded while the tasks of a Func over it waited for a proc; the Func failed instead of recomputing it: %v | library log: %s", op.R, o.RunErr, logTail(12)))
				default:
					if d := compareResult(o.Rows, want); d != "" {
						violate(fmt.Sprintf("derive-rows-differ ops=%s exec=%s", opSig(&sp), ex), fmt.Sprintf("Func over result %d discarded while its consumer waited: %s", op.R, d))
						return
					}
					t.Count("derived_runs_ok", 1)
					t.Count("recomputations_after_discard_or_loss", 1)
					reuse++
				}
			case "scanmid":
				// a scanner is open (K rows read) when the result is discarded, and reads on: the
				// scan must end with all rows of the result or with an error, never short and clean
				done := make(chan struct{})
				var rows []row
				var err error
				go func() {
					defer close(done)
					defer func() {
						if e := recover(); e != nil {
							err = fmt.Errorf("panic: %v", e)
							violate("scan-panic exec="+ex, fmt.Sprintf("scan of result %d panicked after a discard in mid scan: %v at %s", op.R, e, panicSiteNow()))
						}
					}()
					rows, err = scanRowsThen(bgctx, r.res, op.K, func() {
						mu.Lock()
						r.damage()
						mu.Unlock()
						r.res.Discard(bgctx)
					})
				}()
				select {
				case <-done:
				case <-time.After(90 * time.Second):
					mu.Lock()
					timedOut = true
					mu.Unlock()
					dumpGoroutines("c12-scanmid-" + run)
					return
				}
				t.Count("discards", 1)
				t.Count("discards_in_mid_scan", 1)
				if err != nil {
					t.Count("scans_that_reported_error_after_discard_or_loss", 1)
					return
				}
				if d := compareResult(rows, r.want); d != "" {
					violate(fmt.Sprintf("scan-rows-differ result=discarded-in-mid-scan exec=%s", ex), fmt.Sprintf("result %d was discarded after %d rows of a scan had been read; the scan then ended without error: %s", op.R, op.K, d))
					return
				}
				t.Count("scans_ok_after_discard_or_loss", 1)
			case "discard":
				// mark first: a concurrent scan may observe the discard before it returns
				mu.Lock()
				r.damage()
				mu.Unlock()
				r.res.Discard(bgctx)
				t.Count("discards", 1)
			case "discard-cancelled":
				// a discard whose context has ended before it starts: whatever part of it happened, the
				// result must remain usable by later Funcs (its outputs recomputed if they are gone)
				mu.Lock()
				r.damage()
				mu.Unlock()
				cctx, ccancel := context.WithCancel(bgctx)
				ccancel()
				r.res.Discard(cctx)
				t.Count("discards", 1)
				t.Count("discards_with_an_ended_context", 1)
			case "kill":
				if ls.Sys != nil {
					mu.Lock()
					killed = true
					mu.Unlock()
					if ls.killRunning() {
						mu.Lock()
						nkilled++
						mu.Unlock()
						t.Count("machines_killed", 1)
					}
				}
			case "derive":
				sp := *op.Spec
				sp.Run = fmt.Sprintf("%s-d%d", run, oi)
				args := [2]bigslice.Slice{r.res, results[op.R2].res}
				want, _, err := evalSpec(&sp, []*rel{r.want, results[op.R2].want})
				if err != nil {
					return
				}
				mu.Lock()
				dmg := r.damaged || results[op.R2].damaged || killed
				mu.Unlock()
				o := runSpec(ls, sp, args, true, 120*time.Second)
				switch {
				case o.TimedOut && o.Stalled:
					// bounded progress: the Func has not returned and nothing is moving any more (no RPC
					// other than keepalives for two thirds of the watchdog period, or every goroutine
					// inside bigslice parked): it waits for something that will never happen
					mu.Lock()
					timedOut = true
					mu.Unlock()
					violate("derive-hang exec="+ex, fmt.Sprintf("a Func over a result (discarded or lost before: %v) has not returned after 120 s and nothing is in progress: %s", dmg, o.Quiet))
				case o.TimedOut:
					mu.Lock()
					timedOut = true
					mu.Unlock()
				case o.Panic != nil:
					violate("derive-panic exec="+ex, fmt.Sprintf("%v at %s", o.Panic, o.PanicAt))
				case o.RunErr == nil && o.ScanErr != nil && dmg:
					// the derived result can consist of (or pipeline directly over) tasks of a result
					// that is being discarded: the scan after the run may then report an error
					t.Count("scans_that_reported_error_after_discard_or_loss", 1)
				case o.RunErr != nil || o.ScanErr != nil:
					e := o.RunErr
					if e == nil {
						e = o.ScanErr
					}
					if killed && isGiveUp(e) {
						t.Count("give_ups_after_kill", 1)
						return
					}
					if envLoss(true) {
						// a machine was lost without the monitor's doing: an error is an acceptable outcome
						t.Count("give_ups_after_kill", 1)
						return
					}
					state := "intact"
					if dmg {
						state = "discarded-or-lost"
					}
					violate(fmt.Sprintf("derive-failed arg=%s ops=%s exec=%s", state, opSig(&sp), ex), fmt.Sprintf("a Func over result %d failed: %v | %s | library log: %s", op.R, e, specString(&sp), logTail(12)))
				default:
					if d := compareResult(o.Rows, want); d != "" {
						violate(fmt.Sprintf("derive-rows-differ ops=%s exec=%s", opSig(&sp), ex), fmt.Sprintf("Func over result %d: %s | %s", op.R, d, specString(&sp)))
						return
					}
					t.Count("derived_runs_ok", 1)
					if dmg {
						t.Count("recomputations_after_discard_or_loss", 1)
						reuse++
					}
					if len(want.Kinds) > 0 && !want.Weak {
						mu.Lock()
						nr := &c12result{res: o.Res, want: want, parents: []*c12result{r, results[op.R2]}}
						r.children = append(r.children, nr)
						results[op.R2].children = append(results[op.R2].children, nr)
						results = append(results, nr)
						mu.Unlock()
					}
				}
			}
		}
		if op.Conc && op.Op != "derive" {
			wg.Add(1)
			go func() { defer wg.Done(); step() }()
		} else {
			step()
		}
	}
	wg.Wait()
	if timedOut {
		t.Inconclusive("watchdog: an operation did not return (goroutine dump kept)")
		return
	}
	t.Count("histories", 1)
	if reuse > 0 || t.Failed() {
		t.Nontrivial("")
	}
	for _, op := range c.Ops {
		if op.Op == "scan" && op.K >= 2 {
			t.Nontrivial("")
		}
	}
}

func genC12(rnd *vf.Rand, conf sessConf, maxOps int) c12case {
	c := c12case{Conf: conf, Seed: rnd.Uint64()}
	baseOpts := genOpts{MaxOps: 4, Sources: []string{"const", "readerfunc"}, NoWeakHead: true, NoScan: true, MaxRows: 200}
	for tries := 0; tries < 20; tries++ {
		c.Base = genSpec(rnd.Fork(), baseOpts)
		if w, _, err := evalSpec(&c.Base, nil); err == nil && !w.Weak && len(w.Kinds) > 0 {
			break
		}
	}
	want0, _, _ := evalSpec(&c.Base, nil)
	rels := []*rel{want0}
	n := 2 + rnd.Intn(maxOps-1)
	for i := 0; i < n; i++ {
		r := rnd.Intn(len(rels))
		switch x := rnd.Intn(10); {
		case x < 3:
			if rnd.Chance(0.25) {
				c.Ops = append(c.Ops, c12op{Op: "scanmid", R: r, K: rnd.Pick(0, 1, 100, 129, 300)})
				break
			}
			c.Ops = append(c.Ops, c12op{Op: "scan", R: r, K: rnd.Pick(1, 1, 2, 4), Conc: rnd.Chance(0.3)})
		case x < 7:
			r2 := rnd.Intn(len(rels))
			o := genOpts{MaxOps: 3, Sources: []string{"arg"}, ArgRels: []*rel{rels[r], rels[r2]}, NoWeakHead: true, NoScan: true}
			var sp Spec
			var w *rel
			ok := false
			for tries := 0; tries < 10 && !ok; tries++ {
				sp = genSpec(rnd.Fork(), o)
				var err error
				w, _, err = evalSpec(&sp, []*rel{rels[r], rels[r2]})
				ok = err == nil && len(sp.Nodes) >= 2
			}
			if !ok {
				continue
			}
			c.Ops = append(c.Ops, c12op{Op: "derive", R: r, R2: r2, Spec: &sp})
			if len(w.Kinds) > 0 && !w.Weak {
				rels = append(rels, w)
			}
		case x < 9:
			c.Ops = append(c.Ops, c12op{Op: "discard", R: r, Conc: rnd.Chance(0.4)})
		default:
			if conf.Kind == "bigmachine" {
				c.Ops = append(c.Ops, c12op{Op: "kill"})
			} else {
				c.Ops = append(c.Ops, c12op{Op: "discard", R: r})
			}
		}
	}
	return c
}

func runC12(r *vf.Runner) {
	rnd := r.Rand("c12")
	nl, nb, maxOps := 60, 12, 6
	if !r.Quick() {
		nl, nb, maxOps = 1500, 300, 10
	}
	bmk := sessConf{Kind: "bigmachine", P: 4, MachProcs: 2, MaxLoad: 0.95, Keepalive: 50}
	// fixed regression: every redistributing operator over a result argument, then discard and reuse
	for _, op := range []string{"reduce", "reshuffle", "cogroup", "fold", "reshard", "repartition", "map"} {
		for _, conf := range []sessConf{localP4, bmk} {
			base := Spec{Nodes: []PNode{{Op: "const", Shards: 3, Rows: 129, Out: []string{"int", "int64"}, Salt: 3, Mod: 10}, {Op: "filter", In: []int{0}, P: 5, Salt: 2}}}
			d := Spec{Nodes: []PNode{{Op: "arg", Arg: 0}}}
			switch op {
			case "map":
				d.Nodes = append(d.Nodes, PNode{Op: "map", In: []int{0}, Out: []string{"int", "string"}, Src: []int{0, -1}, Mod: 5, Salt: 9})
			case "reshard":
				d.Nodes = append(d.Nodes, PNode{Op: "reshard", In: []int{0}, Shards: 5})
			case "reduce":
				d.Nodes = append(d.Nodes, PNode{Op: "reduce", In: []int{0}, Fold: "sum"})
			case "cogroup":
				d.Nodes = append(d.Nodes, PNode{Op: "cogroup", In: []int{0, 0}})
			default:
				d.Nodes = append(d.Nodes, PNode{Op: op, In: []int{0}, Salt: 4})
			}
			c := c12case{Conf: conf, Base: base, Ops: []c12op{{Op: "derive", R: 0, Spec: &d}, {Op: "scan", R: 0, K: 3}, {Op: "discard", R: 0}, {Op: "derive", R: 0, Spec: &d}, {Op: "scan", R: 0, K: 2}, {Op: "scan", R: 1}}}
			r.Case(c, func(t *vf.T) { runC12case(t, c) })
		}
	}
	// a discard whose context has already ended, then reuse by pipelined and redistributing Funcs
	for _, dop := range []PNode{{Op: "reduce", In: []int{0}, Fold: "sum"}, {Op: "map", In: []int{0}, Out: []string{"int", "int64"}, Src: []int{0, 1}, Salt: 4}} {
		for _, conf := range []sessConf{localP4, bmk} {
			base := Spec{Nodes: []PNode{{Op: "const", Shards: 3, Rows: 129, Out: []string{"int", "int64"}, Salt: 3, Mod: 10}, {Op: "filter", In: []int{0}, P: 5, Salt: 2}}}
			d := Spec{Nodes: []PNode{{Op: "arg", Arg: 0}, dop}}
			c := c12case{Conf: conf, Base: base, Ops: []c12op{{Op: "discard-cancelled", R: 0}, {Op: "derive", R: 0, Spec: &d}, {Op: "derive", R: 0, Spec: &d, Conc: false}, {Op: "scan", R: 1}}}
			r.Case(c, func(t *vf.T) { runC12case(t, c) })
		}
	}
	// a result discarded while a scanner over it is open, at several depths; then reused
	for _, k := range []int{0, 1, 100, 129, 300} {
		for _, conf := range []sessConf{localP4, bmk} {
			base := Spec{Nodes: []PNode{{Op: "const", Shards: 3, Rows: 1200, Out: []string{"int", "int64"}, Salt: 3, Mod: 10}, {Op: "filter", In: []int{0}, P: 5, Salt: 2}}}
			d := Spec{Nodes: []PNode{{Op: "arg", Arg: 0}, {Op: "reduce", In: []int{0}, Fold: "sum"}}}
			c := c12case{Conf: conf, Base: base, Ops: []c12op{{Op: "scanmid", R: 0, K: k}, {Op: "derive", R: 0, Spec: &d}, {Op: "scan", R: 0}, {Op: "scan", R: 1}}}
			r.Case(c, func(t *vf.T) { runC12case(t, c) })
		}
	}
	// a result discarded while the tasks of a Func over it wait for the session's only proc
	for _, conf := range []sessConf{{Kind: "local", P: 1}, {Kind: "bigmachine", P: 1, MachProcs: 1, MaxLoad: 0.95, Keepalive: 50}} {
		for _, dop := range []PNode{{Op: "reduce", In: []int{0}, Fold: "sum"}, {Op: "reshuffle", In: []int{0}}, {Op: "map", In: []int{0}, Out: []string{"int", "int64"}, Src: []int{0, 1}, Salt: 4}} {
			base := Spec{Nodes: []PNode{{Op: "const", Shards: 3, Rows: 129, Out: []string{"int", "int64"}, Salt: 3, Mod: 10}, {Op: "filter", In: []int{0}, P: 5, Salt: 2}}}
			d := Spec{Nodes: []PNode{{Op: "arg", Arg: 0}, dop}}
			c := c12case{Conf: conf, Base: base, Ops: []c12op{{Op: "blockedderive", R: 0, Spec: &d}, {Op: "scan", R: 0}, {Op: "derive", R: 0, Spec: &d}}}
			r.Case(c, func(t *vf.T) { runC12case(t, c) })
		}
	}
	// a result with combining tasks is discarded again while a Func over it recomputes it
	for _, conf := range []sessConf{{Kind: "local", P: 1}, localP4, {Kind: "bigmachine", P: 1, MachProcs: 1, MaxLoad: 0.95, Keepalive: 50}, bmk} {
		base := Spec{Delay: 20000, Nodes: []PNode{{Op: "const", Shards: 3, Rows: 300, Out: []string{"int", "int64"}, Salt: 3, Mod: 12}, {Op: "reduce", In: []int{0}, Fold: "sum"}}}
		d := Spec{Nodes: []PNode{{Op: "arg", Arg: 0}, {Op: "map", In: []int{0}, Out: []string{"int", "int64"}, Src: []int{0, 1}, Salt: 4}}}
		for _, pct := range []int{10, 50, 70, 80, 90, 97} {
			c := c12case{Conf: conf, Base: base, Ops: []c12op{{Op: "rediscard", R: 0, K: pct, Spec: &d}, {Op: "scan", R: 0}, {Op: "derive", R: 0, Spec: &d}}}
			r.Case(c, func(t *vf.T) { runC12case(t, c) })
		}
	}
	// one Func that redistributes the same result twice, in ways that cannot share tasks
	// (different widths, different combiners, with and without combiner)
	twice := [][2]PNode{
		{{Op: "reduce", In: []int{0}, Fold: "sum"}, {Op: "reduce", In: []int{0}, Fold: "max"}},
		{{Op: "reshard", In: []int{0}, Shards: 2}, {Op: "reshard", In: []int{0}, Shards: 3}},
		{{Op: "reshard", In: []int{0}, Shards: 1}, {Op: "reduce", In: []int{0}, Fold: "min"}},
		{{Op: "reshuffle", In: []int{0}}, {Op: "reshard", In: []int{0}, Shards: 5}},
		{{Op: "repartition", In: []int{0}, Salt: 4}, {Op: "reduce", In: []int{0}, Fold: "sum"}},
		{{Op: "fold", In: []int{0}, Salt: 4}, {Op: "reshard", In: []int{0}, Shards: 2}},
	}
	for _, pair := range twice {
		for _, conf := range []sessConf{localP4, bmk} {
			base := Spec{Nodes: []PNode{{Op: "const", Shards: 3, Rows: 129, Out: []string{"int", "int64"}, Salt: 3, Mod: 10}, {Op: "filter", In: []int{0}, P: 5, Salt: 2}}}
			d := Spec{Nodes: []PNode{{Op: "arg", Arg: 0}, pair[0], pair[1], {Op: "cogroup", In: []int{1, 2}}}}
			c := c12case{Conf: conf, Base: base, Ops: []c12op{{Op: "derive", R: 0, Spec: &d}, {Op: "scan", R: 1, K: 2}, {Op: "discard", R: 0}, {Op: "derive", R: 0, Spec: &d}, {Op: "scan", R: 0}}}
			r.Case(c, func(t *vf.T) { runC12case(t, c) })
		}
	}
	// one use of a result must not change what later uses of the same result observe: every kind of
	// first use (every redistribution, to one and to several shards, and a pipelined one) followed by
	// a pipelined and by redistributing later uses of the same result
	firsts := []PNode{{Op: "reshard", In: []int{0}, Shards: 1}, {Op: "reshard", In: []int{0}, Shards: 2}, {Op: "reshard", In: []int{0}, Shards: 5},
		{Op: "reduce", In: []int{0}, Fold: "sum"}, {Op: "reshuffle", In: []int{0}}, {Op: "cogroup", In: []int{0, 0}}, {Op: "fold", In: []int{0}, Salt: 4},
		{Op: "repartition", In: []int{0}, Salt: 4}, {Op: "map", In: []int{0}, Out: []string{"int", "int64"}, Src: []int{0, 1}, Salt: 4}}
	laters := []PNode{{Op: "map", In: []int{0}, Out: []string{"int", "int64"}, Src: []int{0, 1}, Salt: 6}, {Op: "reduce", In: []int{0}, Fold: "max"},
		{Op: "reshard", In: []int{0}, Shards: 2}, {Op: "cogroup", In: []int{0, 0}}, {Op: "reshard", In: []int{0}, Shards: 1}}
	for fi, first := range firsts {
		for li, later := range laters {
			for ci, conf := range []sessConf{localP4, bmk} {
				if r.Quick() && (fi+li+ci)%2 == 1 && first.Shards != 1 {
					continue
				}
				base := Spec{Nodes: []PNode{{Op: "const", Shards: 3, Rows: 129, Out: []string{"int", "int64"}, Salt: 3, Mod: 10}, {Op: "filter", In: []int{0}, P: 5, Salt: 2}}}
				d1 := Spec{Nodes: []PNode{{Op: "arg", Arg: 0}, first}}
				d2 := Spec{Nodes: []PNode{{Op: "arg", Arg: 0}, later}}
				c := c12case{Conf: conf, Base: base, Ops: []c12op{{Op: "derive", R: 0, Spec: &d1}, {Op: "derive", R: 0, Spec: &d2}, {Op: "scan", R: 0}, {Op: "derive", R: 0, Spec: &d1}, {Op: "scan", R: 2}}}
				r.Case(c, func(t *vf.T) {
					runC12case(t, c)
					t.Count("use_after_use_histories", 1)
				})
			}
		}
	}
	for i := 0; i < nl+nb; i++ {
		conf := localP4
		if i >= nl {
			conf = bmk
		}
		f := rnd.Fork()
		r.CaseLazy(func() any { return genC12(f, conf, maxOps) }, func(t *vf.T, d any) { runC12case(t, d.(c12case)) })
	}
}
