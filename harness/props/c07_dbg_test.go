package props

import (
	"fmt"
	"testing"

	"verifharness/internal/vf"
)

func TestC07Dbg(t *testing.T) {
	Setup()
	c := c07case{Schema: 1, Batches: []int{3, 4, 2}, Dest: []int{1}, Data: 78}
	st, _ := c07encode(c)
	fmt.Printf("len=%d batchEnd=%v msgOffs=%v\n%q\nrows=%s\n", len(st.bytes), st.batchEnd, st.msgOffs, st.bytes, rowsStr(st.rows))
	for x := 0; x < 256; x++ {
		d := append([]byte{}, st.bytes...)
		d[113] = byte(x)
		o := c07decode(st, d, c.Dest, vf.NewRand(1))
		if o.res.err == nil || len(o.res.rows) > 3 {
			fmt.Printf("x=%d rows=%s err=%v\n", x, rowsStr(o.res.rows), o.res.err)
		}
	}
}
