package props

import (
	"bytes"
	"context"
	"fmt"
	"io"
	"net/http"
	"os"
	"path/filepath"
	"reflect"
	"runtime"
	"runtime/pprof"
	"sort"
	"strings"
	"sync"
	"sync/atomic"
	"time"

	"github.com/grailbio/base/log"
	"github.com/grailbio/bigmachine"
	"github.com/grailbio/bigmachine/testsystem"
	"github.com/grailbio/bigslice"
	"github.com/grailbio/bigslice/exec"
)

// Sessions, the RPC interposer (DESIGN §3.4) and helpers to run generated programs.

type sessConf struct {
	Kind      string  `json:"kind"` // local | bigmachine
	P         int     `json:"p"`
	MachProcs int     `json:"machprocs,omitempty"`
	MaxLoad   float64 `json:"maxload,omitempty"`
	Combiners bool    `json:"machinecombiners,omitempty"`
	Keepalive int     `json:"keepalive_ms,omitempty"` // testsystem keepalive period (ms); 0 = default
}

func (c sessConf) String() string {
	if c.Kind == "local" {
		return fmt.Sprintf("local/p%d", c.P)
	}
	return fmt.Sprintf("bm/p%d/m%d/l%.2f/c%v", c.P, c.MachProcs, c.MaxLoad, c.Combiners)
}

// rpcEvent is one call observed by the interposer.
type rpcEvent struct {
	Seq     int64
	Method  string
	Addr    string
	Ordinal int // k-th call of this method (all machines)
	Start   int64
	End     int64
	Err     string
}

// ipSystem wraps testsystem.System so that every driver->worker and worker->worker RPC
// passes through a RoundTripper the monitor controls.
type ipSystem struct {
	*testsystem.System
	client *http.Client
	ip     *interposer
}

func (s *ipSystem) HTTPClient() *http.Client { return s.client }

type ipAction struct {
	Method  string // RPC method to act on, e.g. Worker.Run
	Ordinal int    // at its k-th call
	When    string // before | after
	What    string // kill-target | kill-other | delay | fail
	DelayMs int
}

type interposer struct {
	sys          *ipSystem
	next         http.RoundTripper
	clock        int64
	mu           sync.Mutex
	events       []*rpcEvent
	counts       map[string]int
	actions      []ipAction
	fired        int64
	held         int64 // replies delivered after their machine was killed and seen stopped
	midbody      int64 // replies cut in the middle of their body with their machine killed
	midbodyBytes int64
	dropped      int64           // replies dropped after the call had been executed
	hosts        map[string]bool // hosts addressed by any RPC of this session
	inflightWork int64           // RPCs in flight other than keepalive/stats polling
	killed       []string
	inflight     int64
	lastMethod   string
	lastAct      int64 // unix nanos of the last RPC start/end other than keepalive and stats polling
}

func (ip *interposer) touch(method string) {
	// keepalives, machine status polling (Supervisor.*) and task statistics polling go on for as
	// long as the session lives; they are not progress of a run
	if strings.HasPrefix(method, "Supervisor.") || method == "Worker.TaskStats" || method == "Worker.Stats" {
		return
	}
	atomic.StoreInt64(&ip.lastAct, time.Now().UnixNano())
	ip.mu.Lock()
	ip.lastMethod = method
	ip.mu.Unlock()
}

// quietFor tells for how long no RPC other than keepalive/stats polling started or finished.
func (ip *interposer) quietFor() time.Duration {
	return time.Duration(time.Now().UnixNano() - atomic.LoadInt64(&ip.lastAct))
}

func methodOf(path string) string {
	// bigmachine paths look like /<addr>/<Service>.<Method>
	i := strings.LastIndex(path, "/")
	if i < 0 {
		return path
	}
	return path[i+1:]
}

func (ip *interposer) RoundTrip(req *http.Request) (*http.Response, error) {
	method := methodOf(req.URL.Path)
	ip.mu.Lock()
	k := ip.counts[method]
	ip.counts[method] = k + 1
	ev := &rpcEvent{Seq: atomic.AddInt64(&ip.clock, 1), Method: method, Addr: req.URL.Host + strings.TrimSuffix(req.URL.Path, "/"+method), Ordinal: k}
	ev.Start = ev.Seq
	ip.events = append(ip.events, ev)
	var acts []ipAction
	for _, a := range ip.actions {
		if a.Method == method && a.Ordinal == k {
			acts = append(acts, a)
		}
	}
	if ip.hosts == nil {
		ip.hosts = map[string]bool{}
	}
	ip.hosts[req.URL.Host] = true
	ip.mu.Unlock()
	atomic.AddInt64(&ip.inflight, 1)
	defer atomic.AddInt64(&ip.inflight, -1)
	if !(strings.HasPrefix(method, "Supervisor.") || method == "Worker.TaskStats" || method == "Worker.Stats") {
		atomic.AddInt64(&ip.inflightWork, 1)
		defer atomic.AddInt64(&ip.inflightWork, -1)
	}
	ip.touch(method)
	defer ip.touch(method)
	for _, a := range acts {
		if a.When == "before" {
			ip.apply(a, req)
		}
	}
	resp, err := ip.next.RoundTrip(req)
	for _, a := range acts {
		if a.When == "after" && a.What == "drop-reply" {
			// the call was executed by the worker but its reply is lost on the way back (a
			// connection reset): no machine is harmed; the caller sees a transport error
			if err == nil && resp != nil {
				if resp.Body != nil {
					io.Copy(io.Discard, resp.Body)
					resp.Body.Close()
				}
				atomic.AddInt64(&ip.fired, 1)
				atomic.AddInt64(&ip.dropped, 1)
				resp, err = nil, fmt.Errorf("verif: connection reset by peer (reply of %s dropped)", method)
			}
			continue
		}
		if a.When == "after" && (a.What == "kill-target-midbody" || a.What == "kill-target-midbody-hold") {
			// The machine dies in the middle of a streamed reply (a shuffle or scan read): the
			// caller receives the first half of the body and then a broken connection.
			if err == nil && resp != nil && resp.Body != nil {
				body, rerr := io.ReadAll(resp.Body)
				resp.Body.Close()
				if rerr == nil {
					if m := ip.machineOfRequest(req); m != nil {
						atomic.AddInt64(&ip.fired, 1)
						ip.kill(m, m.Addr)
						atomic.AddInt64(&ip.midbody, 1)
						ip.mu.Lock()
						ip.midbodyBytes += int64(len(body))
						ip.mu.Unlock()
						if a.What == "kill-target-midbody-hold" {
							// the reader learns of the broken stream only after the executor has
							// recorded the loss: its retry then finds the task lost and recomputed,
							// and resumes at the offset it had reached
							want := "lost machine " + m.Addr + ":"
							for i := 0; i < 1000; i++ {
								if logSeen(want) {
									atomic.AddInt64(&ip.held, 1)
									break
								}
								time.Sleep(10 * time.Millisecond)
							}
						}
					}
					resp.Body = io.NopCloser(io.MultiReader(bytes.NewReader(body[:len(body)/2]), errReader{io.ErrUnexpectedEOF}))
				} else {
					resp.Body = io.NopCloser(io.MultiReader(bytes.NewReader(body), errReader{rerr}))
				}
			}
			continue
		}
		if a.When == "after" && a.What == "kill-target-hold" {
			// The reply is in flight when its machine dies: take the complete reply off the wire,
			// kill the machine, let the driver notice the loss, and only then deliver the reply.
			if err == nil && resp != nil && resp.Body != nil {
				body, rerr := io.ReadAll(resp.Body)
				resp.Body.Close()
				if rerr == nil {
					resp.Body = io.NopCloser(bytes.NewReader(body))
					if m := ip.machineOfRequest(req); m != nil {
						atomic.AddInt64(&ip.fired, 1)
						ip.kill(m, m.Addr)
						// deliver once the executor itself has recorded the loss (its own log line); if
						// that is not seen, the reply counts as an ordinary kill after the call
						want := "lost machine " + m.Addr + ":"
						for i := 0; i < 1000; i++ {
							if logSeen(want) {
								atomic.AddInt64(&ip.held, 1)
								break
							}
							time.Sleep(10 * time.Millisecond)
						}
					}
				} else {
					resp.Body = io.NopCloser(io.MultiReader(bytes.NewReader(body), errReader{rerr}))
				}
			}
			continue
		}
		if a.When == "after" {
			ip.apply(a, req)
		}
	}
	ev.End = atomic.AddInt64(&ip.clock, 1)
	if err != nil {
		ev.Err = err.Error()
	}
	return resp, err
}

// machineOfRequest finds the testsystem machine a request is addressed to.
func (ip *interposer) machineOfRequest(req *http.Request) (m *bigmachine.Machine) {
	defer func() { recover() }() // Index panics if a machine vanished concurrently
	n := ip.sys.N()
	for i := 0; i < n; i++ {
		if x := ip.sys.Index(i); x != nil && x.Addr == "http://"+req.URL.Host {
			return x
		}
	}
	return nil
}

func (ip *interposer) apply(a ipAction, req *http.Request) {
	atomic.AddInt64(&ip.fired, 1)
	switch a.What {
	case "delay":
		time.Sleep(time.Duration(a.DelayMs) * time.Millisecond)
	case "kill-target":
		if m := ip.machineOfRequest(req); m != nil {
			ip.kill(m, m.Addr)
		}
	case "kill-any":
		ip.kill(nil, "any")
	}
}

// kill kills a machine without waiting for ever: testsystem's Kill closes the machine's HTTP
// server and waits for its outstanding requests, which never ends when the RPC being intercepted
// is itself issued from a handler of that server (worker-to-worker calls of in-process workers).
func (ip *interposer) kill(m *bigmachine.Machine, label string) {
	done := make(chan bool, 1)
	go func() { done <- ip.sys.Kill(m) }()
	ok := true
	select {
	case ok = <-done:
	case <-time.After(300 * time.Millisecond):
	}
	if ok {
		ip.mu.Lock()
		ip.killed = append(ip.killed, label)
		ip.mu.Unlock()
	}
}

type errReader struct{ err error }

func (e errReader) Read([]byte) (int, error) { return 0, e.err }

func (ip *interposer) snapshot() []rpcEvent {
	ip.mu.Lock()
	defer ip.mu.Unlock()
	out := make([]rpcEvent, len(ip.events))
	for i, e := range ip.events {
		out[i] = *e
	}
	return out
}

func (ip *interposer) count(method string) int {
	ip.mu.Lock()
	defer ip.mu.Unlock()
	return ip.counts[method]
}

type liveSession struct {
	failedRuns int32 // runs on this session that failed, panicked or timed out
	Conf       sessConf
	Sess       *exec.Session
	Sys        *ipSystem
	IP         *interposer
}

// Close shuts the session down in the background: Shutdown can block for seconds on
// bigmachine's own timers, and nothing depends on its completion.
//
// Session.Shutdown closes the executor's invocation cache, and work a failed Run left behind in
// executor goroutines (tasks that were still in flight when Run returned its error) panics the
// whole process when it reaches that cache afterwards ("call after close"). A session that saw a
// run fail or time out is therefore not shut down at all (its machines idle until the child
// process ends), and others are shut down only once the RPC layer has been quiet for a while.
func (ls *liveSession) Close() {
	if atomic.LoadInt32(&ls.failedRuns) > 0 {
		return
	}
	go func() {
		if ls.IP != nil {
			for i := 0; i < 200; i++ {
				if atomic.LoadInt64(&ls.IP.inflightWork) == 0 && ls.IP.quietFor() > 300*time.Millisecond {
					break
				}
				time.Sleep(100 * time.Millisecond)
			}
			if atomic.LoadInt64(&ls.IP.inflightWork) != 0 {
				return
			}
		}
		ls.Sess.Shutdown()
	}()
}

// killRunning kills one machine of the session that has reached the Running state (testsystem's
// Kill(nil) picks any machine, also one that is still starting: bigmachine then never resolves
// the start of that machine - m.Wait(Running) does not return - and the executor's startMachines
// waits for it for ever; that is a hang inside the test system's start-up handshake, not in the
// code under test). It reports whether a machine was killed.
func (ls *liveSession) killRunning() bool {
	if ls.Sys == nil {
		return false
	}
	var cand []*bigmachine.Machine
	func() {
		defer func() { recover() }() // Index panics if a machine vanishes concurrently
		for i, n := 0, ls.Sys.N(); i < n; i++ {
			if m := ls.Sys.Index(i); m != nil && m.State() == bigmachine.Running {
				cand = append(cand, m)
			}
		}
	}()
	for _, m := range cand {
		if ls.Sys.Kill(m) {
			return true
		}
	}
	return false
}

// lossesNotCausedByMonitor tells whether the executor has declared more of this session's
// machines lost than the monitor killed: the keepalive of a live machine timed out (a starved
// host). Before a verdict that assumes intact machines is given, the executor gets a moment to
// log a loss that is in the making.
func (ls *liveSession) lossesNotCausedByMonitor(killedByMonitor int, settle bool) bool {
	if ls == nil || ls.IP == nil {
		return false
	}
	for i := 0; ; i++ {
		if len(ls.lostMachines()) > killedByMonitor {
			return true
		}
		if !settle || i >= 15 {
			return false
		}
		time.Sleep(100 * time.Millisecond)
	}
}

// lostMachines returns the addresses of this session's machines whose loss the executor has
// logged ("lost machine <addr>: ..."), whoever caused it.
func (ls *liveSession) lostMachines() []string {
	if ls.IP == nil {
		return nil
	}
	ls.IP.mu.Lock()
	hosts := make([]string, 0, len(ls.IP.hosts))
	for h := range ls.IP.hosts {
		hosts = append(hosts, h)
	}
	ls.IP.mu.Unlock()
	var out []string
	for _, h := range hosts {
		if logSeen("lost machine http://" + h + ":") {
			out = append(out, h)
		}
	}
	sort.Strings(out)
	return out
}

var quietOnce sync.Once

// ringOutputter keeps the last lines bigslice/bigmachine logged, so that a violation can carry
// the library's own account of what happened (lost machines, retries, task errors).
type ringOutputter struct {
	mu    sync.Mutex
	lines []string
	total int // lines ever logged
}

func (r *ringOutputter) Level() log.Level { return log.Info }
func (r *ringOutputter) Output(_ int, lvl log.Level, s string) error {
	r.mu.Lock()
	if len(r.lines) >= 400 {
		r.lines = r.lines[100:]
	}
	if len(s) > 300 {
		s = s[:300]
	}
	r.lines = append(r.lines, s)
	r.total++
	r.mu.Unlock()
	return nil
}

var logRing = &ringOutputter{}

// logTail returns the last lines logged that mention losses, errors or retries.
func logTail(n int) string {
	logRing.mu.Lock()
	defer logRing.mu.Unlock()
	var out []string
	for i := len(logRing.lines) - 1; i >= 0 && len(out) < n; i-- {
		l := logRing.lines[i]
		if strings.Contains(l, "lost") || strings.Contains(l, "error") || strings.Contains(l, "retry") || strings.Contains(l, "probation") || strings.Contains(l, "stopped") {
			out = append(out, strings.TrimSpace(l))
		}
	}
	return strings.Join(out, " || ")
}

// logSeen tells whether the library logged a line containing s (within the ring's memory).
func logSeen(s string) bool {
	logRing.mu.Lock()
	defer logRing.mu.Unlock()
	for i := len(logRing.lines) - 1; i >= 0; i-- {
		if strings.Contains(logRing.lines[i], s) {
			return true
		}
	}
	return false
}

// logMark returns a position in the library's log; logCountSince counts the lines containing s
// logged after it (within the ring's memory).
func logMark() int {
	logRing.mu.Lock()
	defer logRing.mu.Unlock()
	return logRing.total
}

func logCountSince(mark int, s string) int {
	logRing.mu.Lock()
	defer logRing.mu.Unlock()
	first := logRing.total - len(logRing.lines) // number of the oldest line kept
	n := 0
	for i, l := range logRing.lines {
		if first+i >= mark && strings.Contains(l, s) {
			n++
		}
	}
	return n
}

func quietLogs() {
	quietOnce.Do(func() {
		if os.Getenv("VERIF_LOGS") == "" {
			log.SetOutputter(logRing)
		}
	})
}

func startSession(c sessConf, actions ...ipAction) *liveSession {
	quietLogs()
	ls := &liveSession{Conf: c}
	if c.P <= 0 {
		c.P = 1
	}
	if c.Kind == "local" {
		ls.Sess = exec.Start(exec.Local, exec.Parallelism(c.P))
		return ls
	}
	// The stock read-retry policy backs off for 5..60 s (135 s in total); with it every fault case
	// and every failing read costs minutes. The monitors use a fast bounded policy (DESIGN C02).
	fastRetry()
	ts := testsystem.New()
	if c.MachProcs > 0 {
		ts.Machineprocs = c.MachProcs
	}
	if c.Keepalive > 0 {
		ts.KeepalivePeriod = time.Duration(c.Keepalive) * time.Millisecond
		// generous relative to the period: a loaded host must not make live machines look dead
		ts.KeepaliveTimeout = 10 * ts.KeepalivePeriod
		ts.KeepaliveRpcTimeout = 5 * ts.KeepalivePeriod
	}
	sys := &ipSystem{System: ts}
	ip := &interposer{sys: sys, next: ts.HTTPClient().Transport, counts: map[string]int{}, actions: actions, lastAct: time.Now().UnixNano()}
	sys.ip = ip
	sys.client = &http.Client{Transport: ip}
	ls.Sys, ls.IP = sys, ip
	opts := []exec.Option{exec.Bigmachine(sys), exec.Parallelism(c.P)}
	if c.MaxLoad > 0 {
		opts = append(opts, exec.MaxLoad(c.MaxLoad))
	}
	if c.Combiners {
		opts = append(opts, exec.MachineCombiners)
	}
	ls.Sess = exec.Start(opts...)
	return ls
}

// scanRows reads all rows of a result through its Scanner.
func scanRows(ctx context.Context, res *exec.Result) ([]row, error) {
	return scanRowsThen(ctx, res, -1, nil)
}

// scanRowsThen is scanRows that calls then() once, after the scanner has been opened and `after`
// rows have been read (or the scan has ended before that), and goes on scanning.
func scanRowsThen(ctx context.Context, res *exec.Result, after int, then func()) ([]row, error) {
	sc := res.Scanner()
	defer sc.Close()
	n := res.NumOut()
	ptrs := make([]interface{}, n)
	for i := range ptrs {
		ptrs[i] = reflect.New(res.Out(i)).Interface()
	}
	var rows []row
	if then != nil && after == 0 {
		then()
		then = nil
	}
	for sc.Scan(ctx, ptrs...) {
		if then != nil && len(rows)+1 >= after {
			then()
			then = nil
		}
		r := make(row, n)
		for i := range ptrs {
			r[i] = cloneProgVal(reflect.ValueOf(ptrs[i]).Elem().Interface())
		}
		rows = append(rows, r)
		if len(rows) > 50_000_000 {
			return rows, fmt.Errorf("verif: scan does not end")
		}
	}
	return rows, sc.Err()
}

// abandonedRuns counts runs the watchdog gave up on; their goroutines keep running in this process.
var abandonedRuns int32

// AbandonedWork tells the runner why no further cases should be executed in this process.
func AbandonedWork() string {
	if n := atomic.LoadInt32(&abandonedRuns); n > 0 {
		return fmt.Sprintf("%d run(s) that the watchdog gave up on are still executing", n)
	}
	return ""
}

type runOutcome struct {
	Res      *exec.Result
	Rows     []row
	RunErr   error
	ScanErr  error
	Panic    any
	PanicAt  string
	TimedOut bool
	// Stalled: the watchdog fired and no RPC other than keepalive/stats polling had started or
	// finished for at least two thirds of the watchdog period (bounded-progress rule, DESIGN §3.6):
	// every timer in the system (retry backoffs of at most seconds) is far shorter.
	Stalled bool
	Quiet   string // how long the RPC layer had been quiet when the watchdog fired, and the last method seen
}

// runSpec runs a program on a session with a watchdog (its firing is inconclusive, not a violation).
func runSpec(ls *liveSession, sp Spec, args [2]bigslice.Slice, scan bool, timeout time.Duration) (out runOutcome) {
	done := make(chan struct{})
	go func() {
		defer close(done)
		defer func() {
			if e := recover(); e != nil {
				out.Panic = e
				out.PanicAt = panicSiteNow()
			}
		}()
		ctx := context.Background()
		var a, b interface{}
		if args[0] != nil {
			a = args[0]
		}
		if args[1] != nil {
			b = args[1]
		}
		out.Res, out.RunErr = ls.Sess.Run(ctx, ProgFunc, sp, a, b)
		if out.RunErr == nil && scan {
			out.Rows, out.ScanErr = scanRows(ctx, out.Res)
		}
	}()
	select {
	case <-done:
		if out.Panic != nil || out.RunErr != nil || out.ScanErr != nil {
			atomic.AddInt32(&ls.failedRuns, 1)
		}
	case <-time.After(timeout):
		atomic.AddInt32(&ls.failedRuns, 1)
		atomic.AddInt32(&abandonedRuns, 1)
		out.TimedOut = true
		if ls.IP != nil {
			ls.IP.mu.Lock()
			out.Quiet = fmt.Sprintf("quiet for %v, last RPC %s", ls.IP.quietFor().Round(time.Second), ls.IP.lastMethod)
			ls.IP.mu.Unlock()
			if ls.IP.quietFor() > timeout*2/3 {
				out.Stalled = true
			}
		}
		if ls.IP == nil && processParked() {
			// no RPC layer to watch (local executor): the run is stalled if every goroutine that is
			// inside bigslice code is blocked on a channel, lock or condition, twice, half a second
			// apart, with the same stacks - nothing is left that could make progress
			out.Stalled = true
			out.Quiet = "every goroutine inside bigslice code is parked (two identical samples)"
		}
		dumpGoroutines("timeout-" + sp.Run)
	}
	return
}

// processParked samples all goroutine stacks twice and tells whether, both times, there are
// goroutines inside bigslice code, all of them are blocked (none running, runnable, sleeping, in a
// system call or waiting for I/O), and their stacks are the same.
func processParked() bool {
	sample := func() (string, bool) {
		buf := make([]byte, 8<<20)
		n := runtime.Stack(buf, true)
		var keep []string
		for _, g := range strings.Split(string(buf[:n]), "\n\n") {
			if !strings.Contains(g, "github.com/grailbio/bigslice") || strings.Contains(g, "props.processParked") {
				continue
			}
			head := g
			if i := strings.Index(g, "\n"); i > 0 {
				head = g[:i]
			}
			blocked := false
			for _, st := range []string{"[chan receive", "[chan send", "[select", "[semacquire", "[sync.Cond.Wait", "[sync.Mutex.Lock", "[sync.RWMutex", "[sync.WaitGroup.Wait"} {
				if strings.Contains(head, st) {
					blocked = true
				}
			}
			if !blocked {
				return "", false
			}
			// drop the "N minutes" annotation of the state, keep id, state and frames
			if i := strings.Index(head, ","); i > 0 {
				g = head[:i] + g[len(head):]
			}
			keep = append(keep, g)
		}
		sort.Strings(keep)
		return strings.Join(keep, "\n\n"), len(keep) > 0
	}
	a, ok := sample()
	if !ok {
		return false
	}
	time.Sleep(500 * time.Millisecond)
	b, ok := sample()
	return ok && a == b
}

// dumpGoroutines writes a goroutine dump to the check's work directory (kept on inconclusive runs).
func dumpGoroutines(name string) {
	dir := os.Getenv("VERIF_WORKDIR")
	if dir == "" {
		dir = os.TempDir()
	}
	f, err := os.Create(filepath.Join(dir, "goroutines-"+name+".txt"))
	if err != nil {
		return
	}
	defer f.Close()
	pprof.Lookup("goroutine").WriteTo(f, 2)
}
