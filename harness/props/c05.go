package props

import (
	"crypto/sha256"
	"fmt"
	"sort"
	"strings"
	"time"

	"github.com/grailbio/bigslice"
	"verifharness/internal/vf"
)

// C05 — keyed redistribution puts each key in one shard, chosen by the key alone.

func init() { Registry["C05"] = runC05 }

type c05case struct {
	Conf      sessConf `json:"conf"`
	Kinds     []string `json:"keykinds"`
	Op        string   `json:"op"` // reshard reshuffle reduce fold cogroup repartition
	Producers int      `json:"producers"`
	NShard    int      `json:"nshard"`
	KeySet    string   `json:"keyset"` // full8 full16 boundary random
	NKeys     int      `json:"nkeys"`
	Rot       int      `json:"rot"` // rotation of the key list (changes vector offsets and producers)
	Dup       int      `json:"dup"` // every key occurs dup times
	Seed      uint64   `json:"seed"`
	// Narrow: the rows are first redistributed by a key prefix of two columns (by this operator),
	// then re-prefixed to their first column only, and then Op is applied: rows that agree in the
	// first column were spread over the shards by the earlier placement and must be brought together.
	Narrow string `json:"narrow,omitempty"`
	// ViaResult (with Narrow): the first redistribution is its own invocation; its Result is the
	// argument of a second invocation that re-prefixes it and applies Op
	ViaResult bool `json:"via_result,omitempty"`
}

// c05assign accumulates key -> shard over all runs of this process.
var c05assign = map[string]int{}
var c05assignWho = map[string]string{}

func c05vals(c c05case) []uint64 {
	var vals []uint64
	switch c.KeySet {
	case "full8":
		for i := 0; i < 256; i++ {
			vals = append(vals, uint64(i))
		}
	case "full16":
		for i := 0; i < 65536; i++ {
			vals = append(vals, uint64(i))
		}
	default:
		rnd := vf.NewRand(c.Seed)
		for i := 0; i < c.NKeys; i++ {
			if c.KeySet == "boundary" || i < 24 {
				vals = append(vals, uint64(i))
			} else {
				vals = append(vals, 24+rnd.Uint64()%100000)
			}
		}
	}
	var out []uint64
	for d := 0; d < c.Dup; d++ {
		out = append(out, vals...)
	}
	if len(out) > 0 {
		r := c.Rot % len(out)
		out = append(out[r:], out[:r]...)
	}
	return out
}

func c05spec(c c05case) Spec {
	kinds := append(append([]string{}, c.Kinds...), "int64")
	p := len(c.Kinds)
	nodes := []PNode{{Op: "keys", Shards: c.Producers, Out: kinds, Vals: c05vals(c)}}
	last := 0
	addN := func(n PNode) {
		n.In = []int{last}
		nodes = append(nodes, n)
		last = len(nodes) - 1
	}
	if c.Narrow != "" {
		// (x, y, 1) with x unique -> (y, x, 1): the first column now repeats (y = x/7)
		addN(PNode{Op: "map", Out: []string{kinds[1], kinds[0], "int64"}, Src: []int{1, 0, 2}, Salt: 1})
		addN(PNode{Op: "prefixed", P: 2})
		addN(PNode{Op: c.Narrow})
		addN(PNode{Op: "prefixed", P: 1})
		addN(PNode{Op: c.Op, Salt: 1})
		addN(PNode{Op: "writerfunc"})
		return Spec{Nodes: nodes}
	}
	if p > 1 {
		addN(PNode{Op: "prefixed", P: p})
	}
	switch c.Op {
	case "reshard":
		// Reshard to the current shard count is documented to return the slice unchanged
		if c.Producers == c.NShard {
			addN(PNode{Op: "reshuffle"})
		} else {
			addN(PNode{Op: "reshard", Shards: c.NShard})
		}
	case "reshard-same":
		// Reshard to the shard count the slice already has: the constructor returns its argument
		addN(PNode{Op: "reshard", Shards: c.Producers})
	case "repartition2":
		// one slice feeds two Repartitions with different functions and the same shard count in
		// one invocation (joined by a Cogroup): each must be partitioned by its own function
		addN(PNode{Op: "reshard", Shards: c.NShard})
		src := last
		nodes = append(nodes, PNode{Op: "repartition", In: []int{src}, Salt: c.Seed})
		nodes = append(nodes, PNode{Op: "writerfunc", In: []int{len(nodes) - 1}})
		w1 := len(nodes) - 1
		nodes = append(nodes, PNode{Op: "repartition", In: []int{src}, Salt: c.Seed + 977})
		nodes = append(nodes, PNode{Op: "writerfunc", In: []int{len(nodes) - 1}})
		w2 := len(nodes) - 1
		nodes = append(nodes, PNode{Op: "cogroup", In: []int{w1, w2}})
		return Spec{Nodes: nodes}
	case "repartition":
		addN(PNode{Op: "reshard", Shards: c.NShard})
		addN(PNode{Op: "repartition", Salt: c.Seed})
	default:
		if c.Producers != c.NShard {
			addN(PNode{Op: "reshard", Shards: c.NShard})
		}
		switch c.Op {
		case "reshuffle":
			addN(PNode{Op: "reshuffle"})
		case "reduce":
			addN(PNode{Op: "reduce", Fold: "sum"})
		case "fold":
			addN(PNode{Op: "fold", Salt: 1})
		case "cogroup":
			addN(PNode{Op: "cogroup"})
		}
	}
	addN(PNode{Op: "writerfunc"})
	return Spec{Nodes: nodes}
}

func runC05case(t *vf.T, pool *sessionPool, c c05case) {
	sp := c05spec(c)
	sp.Run = fmt.Sprintf("c05-%d", t.Index())
	defer probes.Delete(sp.Run)
	ls := pool.get(c.Conf)
	want, rels, err := evalSpec(&sp, nil)
	if err != nil {
		t.Inconclusive("spec: " + err.Error())
		return
	}
	args := [2]bigslice.Slice{}
	if c.Narrow != "" && c.ViaResult {
		// split after the first redistribution (nodes 0..3: keys, map, prefixed(2), narrow op)
		base := Spec{Run: sp.Run + "-base", Nodes: append([]PNode{}, sp.Nodes[:4]...)}
		defer probes.Delete(base.Run)
		_, brels, berr := evalSpec(&base, nil)
		if berr != nil {
			t.Inconclusive("spec: " + berr.Error())
			return
		}
		bo := runSpec(ls, base, [2]bigslice.Slice{}, false, 300*time.Second)
		if bo.TimedOut || bo.RunErr != nil || bo.Panic != nil {
			t.Inconclusive(fmt.Sprintf("base run: %v %v timeout=%v", bo.RunErr, bo.Panic, bo.TimedOut))
			pool.drop(c.Conf)
			return
		}
		defer bo.Res.Discard(bgctx)
		args[0] = bo.Res
		rest := append([]PNode{{Op: "arg", Arg: 0}}, sp.Nodes[4:]...)
		for i := 1; i < len(rest); i++ {
			in := make([]int, len(rest[i].In))
			for j, x := range rest[i].In {
				in[j] = x - 3
			}
			rest[i].In = in
		}
		sp = Spec{Run: sp.Run, Nodes: rest}
		want, rels, err = evalSpec(&sp, []*rel{brels[3], brels[3]})
		if err != nil {
			t.Inconclusive("spec: " + err.Error())
			return
		}
	}
	out := runSpec(ls, sp, args, true, 300*time.Second)
	sigBase := fmt.Sprintf("op=%s key=%s", c.Op, strings.Join(c.Kinds, "+"))
	if c.Narrow != "" {
		sigBase = fmt.Sprintf("op=%s after %s on a wider prefix key=%s", c.Op, c.Narrow, strings.Join(c.Kinds, "+"))
		if c.ViaResult {
			sigBase += " (result of an earlier invocation)"
		}
	}
	switch {
	case out.TimedOut:
		t.Inconclusive("watchdog")
		pool.drop(c.Conf)
		return
	case out.Panic != nil:
		t.Violate(sigBase+" panic:"+out.PanicAt, fmt.Sprint(out.Panic))
		pool.drop(c.Conf)
		return
	case out.RunErr != nil || out.ScanErr != nil:
		t.Violate(sigBase+" run-error", fmt.Sprintf("run: %v scan: %v", out.RunErr, out.ScanErr))
		pool.drop(c.Conf)
		return
	}
	if out.Res != nil {
		defer out.Res.Discard(bgctx)
	}
	if d := compareResult(out.Rows, want); d != "" {
		// distinguish the ±0 class: equal keys emitted twice
		t.Violate(sigBase+" rows"+c05zeroClass(out.Rows, len(c.Kinds)), d)
		return
	}
	if c.Op == "repartition2" {
		pr := probeFor(sp.Run)
		checked := 0
		for wi, n := range sp.Nodes {
			if n.Op != "writerfunc" {
				continue
			}
			rp := &sp.Nodes[n.In[0]]
			nshard := rels[wi].nshard()
			for s := 0; s < nshard; s++ {
				pr.mu.Lock()
				e := pr.entries[recKey{sp.Run, wi, s}]
				var rows []row
				if e != nil && len(e.Attempts) > 0 {
					rows = append(rows, e.Attempts[len(e.Attempts)-1].Rows...)
				}
				pr.mu.Unlock()
				for _, r := range rows {
					checked++
					if want := partitionOf(rp, r, nshard); want != s {
						t.Violate(sigBase+" repartition-wrong-shard", fmt.Sprintf("two Repartitions of one slice: row %s of the one with salt %d is in shard %d, its partition function returned %d", progRowStr(r), rp.Salt, s, want))
						return
					}
				}
			}
		}
		if checked != 2*rels[0].count() {
			t.Violate(sigBase+" recorder-count", fmt.Sprintf("the two writers saw %d rows, expected %d", checked, 2*rels[0].count()))
			return
		}
		t.Count("rows_placed", int64(checked))
		t.Count("runs", 1)
		t.Count("two_repartition_runs", 1)
		t.Nontrivial("")
		return
	}
	// per-shard placement from the writerfunc after the redistributing operator
	wi := len(sp.Nodes) - 1
	p := len(c.Kinds)
	if c.Narrow != "" {
		p = 1
	}
	pr := probeFor(sp.Run)
	nshard := rels[wi].nshard()
	inRun := map[string]int{}
	shardsUsed := map[int]bool{}
	nrows := 0
	var repart *PNode
	if c.Op == "repartition" {
		repart = &sp.Nodes[wi-1]
	}
	for s := 0; s < nshard; s++ {
		pr.mu.Lock()
		e := pr.entries[recKey{sp.Run, wi, s}]
		var rows []row
		if e != nil && len(e.Attempts) > 0 {
			rows = append(rows, e.Attempts[len(e.Attempts)-1].Rows...)
		}
		pr.mu.Unlock()
		for _, r := range rows {
			nrows++
			shardsUsed[s] = true
			if repart != nil {
				if want := partitionOf(repart, r, nshard); want != s {
					t.Violate(sigBase+" repartition-wrong-shard", fmt.Sprintf("row %s is in shard %d, the partition function returned %d", progRowStr(r), s, want))
					return
				}
				continue
			}
			k := keyEqStr(r, p)
			if prev, ok := inRun[k]; ok && prev != s {
				t.Violate(sigBase+" key-in-two-shards", fmt.Sprintf("key %s is in shards %d and %d (nshard %d, producers %d)", k, prev, s, nshard, c.Producers))
				return
			}
			inRun[k] = s
		}
	}
	if nrows != want.count() {
		t.Violate(sigBase+" recorder-count", fmt.Sprintf("writer saw %d rows, result has %d", nrows, want.count()))
		return
	}
	if c.Op == "reduce" || c.Op == "fold" || c.Op == "cogroup" {
		if len(inRun) != nrows {
			t.Violate(sigBase+" key-emitted-twice", fmt.Sprintf("%d rows for %d distinct keys", nrows, len(inRun)))
			return
		}
	}
	class := c.Op
	if class == "reshard" || class == "reshard-same" || class == "reshuffle" || class == "reduce" || class == "cogroup" {
		class = "hash" // these document the same default hash partitioning of the prefix
	}
	who := fmt.Sprintf("%s/producers=%d/rot=%d/%s", c.Op, c.Producers, c.Rot, c.Conf)
	for k, s := range inRun {
		gk := fmt.Sprintf("%s|%s|%d|%s", class, strings.Join(c.Kinds, "+"), nshard, k)
		if prev, ok := c05assign[gk]; ok && prev != s {
			t.Violate(sigBase+" assignment-not-a-function-of-key", fmt.Sprintf("key %s with %d shards went to shard %d in run [%s] and to shard %d in run [%s]", k, nshard, prev, c05assignWho[gk], s, who))
			return
		}
		c05assign[gk] = s
		c05assignWho[gk] = who
	}
	t.Count("rows_placed", int64(nrows))
	t.Count("keys_checked", int64(len(inRun)))
	t.Count("runs", 1)
	if c.Conf.Kind != "local" {
		t.Count("runs_on_bigmachine", 1)
	}
	t.Seen("key_types", strings.Join(c.Kinds, "+"))
	if c.Producers >= 2 && len(shardsUsed) >= 2 {
		t.Nontrivial("")
	}
}

// c05zeroClass tags result mismatches caused by keys that are equal but distinct values (±0).
func c05zeroClass(rows []row, p int) string {
	for _, r := range rows {
		for _, v := range r[:p] {
			switch x := v.(type) {
			case float64:
				if x == 0 {
					return " (float zero)"
				}
			case float32:
				if x == 0 {
					return " (float zero)"
				}
			}
		}
	}
	return ""
}

func runC05(r *vf.Runner) {
	pool := &sessionPool{}
	defer pool.closeAll()
	run := func(c c05case) { r.Case(c, func(t *vf.T) { runC05case(t, pool, c) }) }
	ops := []string{"reshard", "reshuffle", "reduce", "cogroup"}
	single := []string{"int", "int64", "int32", "int16", "int8", "uint", "uint64", "uint32", "uint16", "uint8", "string", "bytes", "bool", "float64", "float32"}
	// Process history: every second child meets the keys of the cross-process key sets first through
	// single-shard aggregations (combining without partitioning: the combiner hashes keys with its own
	// seed), the others first through the partitioner. The assignment may not depend on which code
	// hashed a key value first in the process.
	odd := r.Batch%2 == 1
	r.CaseAll(map[string]any{"prelude": "single-shard aggregations first in odd children"}, func(t *vf.T) {
		if !odd {
			return
		}
		for _, k := range single {
			for _, op := range []string{"reduce", "cogroup"} {
				runC05case(t, pool, c05case{Conf: localP4, Kinds: []string{k}, Op: op, Producers: 1, NShard: 1, KeySet: "random", NKeys: 200, Dup: 2, Seed: 99})
			}
		}
		for _, k := range []string{"uint8", "int8"} {
			runC05case(t, pool, c05case{Conf: localP4, Kinds: []string{k}, Op: "reduce", Producers: 1, NShard: 1, KeySet: "full8", Dup: 2, Seed: 1})
		}
		t.Count("history_preludes", 1)
	})
	// exhaustive 8- and 16-bit and bool keys
	for _, k := range []string{"uint8", "int8", "bool"} {
		for _, n := range []int{2, 3, 5, 16, 17} {
			for _, op := range ops {
				for rot := 0; rot < 2; rot++ {
					run(c05case{Conf: localP4, Kinds: []string{k}, Op: op, Producers: 1 + (n+rot)%5, NShard: n, KeySet: "full8", Rot: rot * 77, Dup: 1 + rot, Seed: 1})
				}
			}
		}
	}
	n16 := []int{3, 16}
	if !r.Quick() {
		n16 = []int{2, 3, 5, 7, 16, 17}
	}
	for _, k := range []string{"uint16", "int16"} {
		for _, n := range n16 {
			for i, op := range ops {
				if r.Quick() && (i+n)%2 == 0 {
					continue
				}
				run(c05case{Conf: localP4, Kinds: []string{k}, Op: op, Producers: 1 + n%5, NShard: n, KeySet: "full16", Rot: n * 1000, Dup: 1, Seed: 1})
			}
		}
	}
	// boundary and random values for every key type, shard counts 1..17, producers 1..5, every rotation class
	shardCounts := []int{1, 2, 3, 4, 7, 16, 17}
	if !r.Quick() {
		shardCounts = []int{1, 2, 3, 4, 5, 6, 7, 8, 9, 10, 11, 12, 13, 14, 15, 16, 17}
	}
	for _, k := range single {
		for _, n := range shardCounts {
			for pi, prod := range []int{1, 2, 3, 5} {
				op := append(ops, "repartition")[(n+pi)%5]
				if (k == "string" || k == "int" || k == "int64") && (n+pi)%3 == 0 {
					op = "fold"
				}
				if r.Quick() && (n+pi)%2 == 1 {
					continue
				}
				run(c05case{Conf: localP4, Kinds: []string{k}, Op: op, Producers: prod, NShard: n, KeySet: "random", NKeys: 400, Rot: 37 * pi, Dup: 2, Seed: uint64(n)})
			}
		}
	}
	// two Repartitions of one slice in one invocation
	for i, k := range []string{"int", "string", "uint16"} {
		for _, n := range []int{2, 3, 7} {
			for _, conf := range []sessConf{localP4, bm2} {
				if r.Quick() && conf.Kind != "local" && (i+n)%2 == 0 {
					continue
				}
				run(c05case{Conf: conf, Kinds: []string{k}, Op: "repartition2", Producers: 2, NShard: n, KeySet: "random", NKeys: 300, Dup: 1, Seed: uint64(10 + n)})
			}
		}
	}
	// Reshard to the shard count a slice already has
	for _, k := range []string{"int", "string", "float64"} {
		for _, n := range []int{2, 3} {
			run(c05case{Conf: localP4, Kinds: []string{k}, Op: "reshard-same", Producers: n, NShard: n, KeySet: "random", NKeys: 100, Dup: 2, Seed: uint64(n)})
		}
	}
	// a narrower key prefix after a redistribution by a wider one
	for i, ks := range [][]string{{"int", "string"}, {"string", "int"}, {"int64", "int"}} {
		for _, n := range []int{2, 3, 7} {
			for _, pre := range []string{"reshuffle", "cogroup"} {
				for _, op := range []string{"cogroup", "reshuffle", "fold"} {
					if pre == "cogroup" && op == "fold" {
						continue
					}
					if r.Quick() && (i+n)%2 == 1 && op != "cogroup" {
						continue
					}
					for _, conf := range []sessConf{localP4, bm2} {
						if conf.Kind != "local" && (n != 3 || i != 0) {
							continue
						}
						run(c05case{Conf: conf, Kinds: ks, Op: op, Narrow: pre, Producers: n, NShard: n, KeySet: "random", NKeys: 150, Dup: 1, Seed: uint64(n + i)})
						if op != "fold" && (!r.Quick() || n == 3) {
							run(c05case{Conf: conf, Kinds: ks, Op: op, Narrow: pre, ViaResult: true, Producers: n, NShard: n, KeySet: "random", NKeys: 150, Dup: 1, Seed: uint64(n + i)})
						}
					}
				}
			}
		}
	}
	// two views of one slice redistributed side by side
	for i, ks := range [][]string{{"int", "string"}, {"string", "int"}, {"int64", "int"}} {
		for _, n := range []int{2, 3, 4, 7} {
			if r.Quick() && (i+n)%2 == 1 {
				continue
			}
			for _, conf := range []sessConf{localP4, bm2} {
				if conf.Kind != "local" && n != 3 {
					continue
				}
				c := c05views{Conf: conf, Kinds: ks, N: n, Seed: uint64(n + i)}
				r.Case(c, func(t *vf.T) { runC05views(t, pool, c) })
			}
		}
	}
	// multi-column prefixes
	for i, ks := range [][]string{{"int", "string"}, {"uint8", "bytes", "bool"}, {"string", "float64"}, {"int16", "int64", "uint32"}} {
		for _, n := range []int{2, 3, 7, 16} {
			for _, op := range []string{"reshard", "reshuffle", "reduce", "cogroup"} {
				if r.Quick() && (i+n)%2 == 1 {
					continue
				}
				run(c05case{Conf: localP4, Kinds: ks, Op: op, Producers: 1 + (i+n)%4, NShard: n, KeySet: "random", NKeys: 300, Rot: n, Dup: 2, Seed: uint64(i)})
			}
		}
	}
	// the same on the distributed executor (different tasks, machines, batches)
	nb := 6
	if !r.Quick() {
		nb = 60
	}
	for i := 0; i < nb; i++ {
		k := single[i%len(single)]
		run(c05case{Conf: bm2, Kinds: []string{k}, Op: ops[i%4], Producers: 1 + i%3, NShard: []int{2, 3, 7}[i%3], KeySet: "random", NKeys: 300, Rot: i, Dup: 2, Seed: uint64([]int{2, 3, 7}[i%3])})
	}
	// cross-process: every child computes the assignment of a fixed key set; the orchestrator
	// compares the digests between separately started OS processes (different ASLR, map seeds,
	// GOMAXPROCS).
	for _, k := range single {
		for _, n := range []int{3, 16} {
			k, n := k, n
			r.CaseAll(map[string]any{"cross": k, "nshard": n}, func(t *vf.T) {
				c := c05case{Conf: localP4, Kinds: []string{k}, Op: "reshard", Producers: 2, NShard: n, KeySet: "random", NKeys: 200, Dup: 1, Seed: 99}
				before := len(c05assign)
				_ = before
				runC05case(t, pool, c)
				var lines []string
				prefix := fmt.Sprintf("hash|%s|%d|", k, n)
				for gk, s := range c05assign {
					if strings.HasPrefix(gk, prefix) {
						lines = append(lines, fmt.Sprintf("%s=%d", gk, s))
					}
				}
				sort.Strings(lines)
				h := sha256.Sum256([]byte(strings.Join(lines, "\n")))
				_ = h
				// only the keys of this fixed set are digested
				var fixed []string
				sp := c05spec(c)
				for _, rw := range sourceRows(&sp.Nodes[0], 0) {
					gk := prefix + keyEqStr(rw, 1)
					fixed = append(fixed, fmt.Sprintf("%s=%d", gk, c05assign[gk]))
				}
				sort.Strings(fixed)
				hf := sha256.Sum256([]byte(strings.Join(fixed, "\n")))
				t.Cross(fmt.Sprintf("assignment|%s|%d", k, n), fmt.Sprintf("%x", hf[:8]))
			})
		}
	}
}

// ---- two views of one slice: the same slice is redistributed twice in one invocation, once by
// its first column and once (through Prefixed) by its first two columns, with the same shard
// count; the two results are joined by a Cogroup. Each redistribution must place rows by its own
// key: a key of the narrow view in one shard, and the placement of either view the same in both
// argument orders of the join and when the view is computed alone.

type c05views struct {
	Conf  sessConf `json:"conf"`
	Kinds []string `json:"kinds"`
	N     int      `json:"n"`
	Seed  uint64   `json:"seed"`
}

// c05viewSpec: which is "both" (narrow view first in the join), "both-rev", "narrow" or "wide".
func c05viewSpec(c c05views, which string) (Spec, map[int]int) {
	base := c05case{Kinds: c.Kinds, Producers: c.N, NShard: c.N, KeySet: "random", NKeys: 150, Dup: 1, Seed: c.Seed}
	kinds := append(append([]string{}, c.Kinds...), "int64")
	nodes := []PNode{{Op: "keys", Shards: c.N, Out: kinds, Vals: c05vals(base)},
		{Op: "map", In: []int{0}, Out: []string{kinds[1], kinds[0], "int64"}, Src: []int{1, 0, 2}, Salt: 1}}
	writers := map[int]int{} // writer node -> key prefix of the view it observes
	add := func(n PNode) int { nodes = append(nodes, n); return len(nodes) - 1 }
	narrow := func() int {
		a := add(PNode{Op: "reshuffle", In: []int{1}})
		w := add(PNode{Op: "writerfunc", In: []int{a}})
		writers[w] = 1
		return w
	}
	wide := func() int {
		p := add(PNode{Op: "prefixed", In: []int{1}, P: 2})
		b := add(PNode{Op: "reshuffle", In: []int{p}})
		w := add(PNode{Op: "writerfunc", In: []int{b}})
		writers[w] = 2
		return add(PNode{Op: "prefixed", In: []int{w}, P: 1})
	}
	switch which {
	case "narrow":
		narrow()
	case "wide":
		wide()
	case "both":
		a := narrow()
		b := wide()
		add(PNode{Op: "cogroup", In: []int{a, b}})
	case "both-rev":
		b := wide()
		a := narrow()
		add(PNode{Op: "cogroup", In: []int{b, a}})
	}
	return Spec{Nodes: nodes}, writers
}

func runC05views(t *vf.T, pool *sessionPool, c c05views) {
	ls := pool.get(c.Conf)
	sig := "two-views key=" + strings.Join(c.Kinds, "+")
	placement := map[int]map[string]int{1: {}, 2: {}} // prefix -> key -> shard, over all runs of this case
	where := map[int]map[string]string{1: {}, 2: {}}
	for _, which := range []string{"both", "both-rev", "narrow", "wide"} {
		sp, writers := c05viewSpec(c, which)
		sp.Run = fmt.Sprintf("c05v-%d-%s", t.Index(), which)
		want, rels, err := evalSpec(&sp, nil)
		if err != nil {
			t.Inconclusive("spec: " + err.Error())
			return
		}
		out := runSpec(ls, sp, [2]bigslice.Slice{}, true, 300*time.Second)
		pr := probeFor(sp.Run)
		switch {
		case out.TimedOut:
			t.Inconclusive("watchdog")
			pool.drop(c.Conf)
			probes.Delete(sp.Run)
			return
		case out.Panic != nil || out.RunErr != nil || out.ScanErr != nil:
			t.Violate(sig+" run-failed", fmt.Sprintf("%s: run: %v scan: %v panic: %v", which, out.RunErr, out.ScanErr, out.Panic))
			probes.Delete(sp.Run)
			return
		}
		if d := compareResult(out.Rows, want); d != "" {
			t.Violate(sig+" rows", which+": "+d)
			probes.Delete(sp.Run)
			return
		}
		for wi, p := range writers {
			nshard := rels[wi].nshard()
			seen := 0
			for s := 0; s < nshard; s++ {
				pr.mu.Lock()
				e := pr.entries[recKey{sp.Run, wi, s}]
				var rows []row
				if e != nil && len(e.Attempts) > 0 {
					rows = append(rows, e.Attempts[len(e.Attempts)-1].Rows...)
				}
				pr.mu.Unlock()
				for _, r := range rows {
					seen++
					k := keyEqStr(r, p)
					if prev, ok := placement[p][k]; ok && prev != s {
						what := "key-in-two-shards"
						if where[p][k] != which {
							what = "placement-depends-on-the-other-view"
						}
						t.Violate(fmt.Sprintf("%s view-prefix=%d %s", sig, p, what), fmt.Sprintf("the view keyed by its first %d column(s): key %s is in shard %d in program %q and in shard %d in program %q (%d shards)", p, k, prev, where[p][k], s, which, nshard))
						probes.Delete(sp.Run)
						return
					}
					placement[p][k] = s
					where[p][k] = which
				}
			}
			if seen != rels[1].count() {
				t.Violate(sig+" recorder-count", fmt.Sprintf("%s: the writer of the view with prefix %d saw %d rows, the slice has %d", which, p, seen, rels[1].count()))
				probes.Delete(sp.Run)
				return
			}
			t.Count("rows_placed", int64(seen))
		}
		probes.Delete(sp.Run)
		t.Count("runs", 1)
	}
	t.Count("two_view_cases", 1)
	t.Nontrivial("")
}
