package props

import (
	"fmt"

	"verifharness/internal/vf"
)

// Seeded generator of well-typed program specs.

type genOpts struct {
	MaxOps      int
	Sources     []string // allowed source ops
	Ops         []string // allowed operators (nil: all)
	MaxRows     int
	NoWeakHead  bool // never generate Head after a shuffle
	NoScan      bool
	Pragmas     bool
	Ctx         bool // user functions take a context and increment counters
	ValKinds    []string
	ArgRels     []*rel // relations of Func arguments available as "arg" nodes
	SmallShards bool
}

type nodeInfo struct {
	kinds   []string
	prefix  int
	shards  int
	ordered bool
	weak    bool
	unit    bool
	big     bool // downstream of a large fan-out: no further large fan-outs
}

var allGenOps = []string{"map", "map", "filter", "flatmap", "fold", "head", "reduce", "cogroup", "reshuffle", "repartition", "reshard", "prefixed", "writerfunc", "mapkv"}

func pickKinds(rnd *vf.Rand, n int, keyFirst bool, vals []string) []string {
	ks := make([]string, n)
	for i := range ks {
		if i == 0 && keyFirst {
			ks[i] = keyKinds[rnd.Intn(len(keyKinds))]
		} else {
			ks[i] = vals[rnd.Intn(len(vals))]
		}
	}
	return ks
}

func keysOK(kinds []string, prefix int) bool {
	for i := 0; i < prefix; i++ {
		if !isKeyKind(kinds[i]) {
			return false
		}
	}
	return true
}

type gen struct {
	rnd  *vf.Rand
	o    genOpts
	sp   Spec
	info []nodeInfo
	vals []string
}

var shardChoices = []int{1, 2, 3, 5}
var rowsChoices = []int{0, 1, 2, 17, 127, 128, 129, 257}

func newGen(rnd *vf.Rand, o genOpts) *gen {
	g := &gen{rnd: rnd, o: o, vals: o.ValKinds}
	if g.vals == nil {
		g.vals = valKinds
	}
	if g.o.MaxRows == 0 {
		g.o.MaxRows = 300
	}
	return g
}

func (g *gen) add(n PNode, ni nodeInfo) int {
	rnd, o := g.rnd, g.o
	if o.Pragmas && rnd.Chance(0.25) {
		switch n.Op {
		case "readerfunc", "map", "filter", "flatmap":
			n.Pragma = []string{"procs2", "exclusive", "materialize"}[rnd.Intn(3)]
		}
	}
	if o.Ctx {
		switch n.Op {
		case "map", "filter", "flatmap":
			n.Ctx = true
		}
	}
	for _, i := range n.In {
		if g.info[i].big {
			ni.big = true
		}
	}
	g.sp.Nodes = append(g.sp.Nodes, n)
	g.info = append(g.info, ni)
	return len(g.sp.Nodes) - 1
}

func (g *gen) addSource() {
	rnd, o, vals := g.rnd, g.o, g.vals
	add := g.add

	src := o.Sources[rnd.Intn(len(o.Sources))]
	shards := shardChoices[rnd.Intn(len(shardChoices))]
	rows := rowsChoices[rnd.Intn(len(rowsChoices))]
	if rows > o.MaxRows {
		rows = o.MaxRows
	}
	mod := rnd.Pick(0, 0, 3, 10, 200)
	switch src {
	case "const":
		k := pickKinds(rnd, 1+rnd.Intn(3), true, vals)
		add(PNode{Op: "const", Shards: shards, Rows: rows, Out: k, Salt: rnd.Uint64(), Mod: mod}, nodeInfo{kinds: k, prefix: 1, shards: shards, ordered: true})
	case "readerfunc":
		k := pickKinds(rnd, 1+rnd.Intn(3), true, vals)
		var ch []int
		for i, m := 0, 1+rnd.Intn(3); i < m; i++ {
			ch = append(ch, rnd.Pick(1, 3, 0, 127, 128, 129, 1<<20, -5, -1<<20))
		}
		nz := false
		for _, c := range ch {
			nz = nz || c != 0
		}
		if !nz {
			ch = append(ch, 4)
		}
		add(PNode{Op: "readerfunc", Shards: shards, Rows: rows, Out: k, Salt: rnd.Uint64(), Mod: mod, Chunks: ch}, nodeInfo{kinds: k, prefix: 1, shards: shards, ordered: true})
	case "scanreader":
		add(PNode{Op: "scanreader", Shards: shards, Rows: rows, Salt: rnd.Uint64(), Mod: 5}, nodeInfo{kinds: []string{"string"}, prefix: 1, shards: shards, ordered: true})
	case "arg":
		a := rnd.Intn(len(o.ArgRels))
		r := o.ArgRels[a]
		add(PNode{Op: "arg", Arg: a}, nodeInfo{kinds: r.Kinds, prefix: r.Prefix, shards: r.nshard(), ordered: r.Ordered && r.Placed, weak: r.Weak})
	}
}

// addOp appends one operator of kind op consuming node in; false if it does not apply.
func (g *gen) addOp(op string, in int, last bool) bool {
	rnd, o, vals := g.rnd, g.o, g.vals
	_ = o
	add := g.add
	sp, info := &g.sp, &g.info
	before := len(g.sp.Nodes)
	ii := (*info)[in]
	if ii.weak || ii.unit {
		return false
	}
	nk := len(ii.kinds)
	switch op {
	case "map":
		if ii.prefix != 1 {
			return false
		}
		out := pickKinds(rnd, 1+rnd.Intn(3), rnd.Chance(0.8), vals)
		src := make([]int, len(out))
		for j := range out {
			src[j] = -1
			for c, kk := range ii.kinds {
				if kk == out[j] && rnd.Chance(0.5) {
					src[j] = c
				}
			}
		}
		add(PNode{Op: "map", In: []int{in}, Out: out, Src: src, Salt: rnd.Uint64(), Mod: rnd.Pick(0, 3, 10, 100)}, nodeInfo{kinds: out, prefix: 1, shards: ii.shards, ordered: ii.ordered})
	case "mapkv":
		// shape rows as (key columns..., int64) so that Reduce applies
		if ii.prefix != 1 {
			return false
		}
		p := 1 + rnd.Intn(2)
		out := make([]string, p+1)
		src := make([]int, p+1)
		for j := 0; j < p; j++ {
			out[j] = keyKinds[rnd.Intn(len(keyKinds))]
			src[j] = -1
			if j < nk && isKeyKind(ii.kinds[j]) && rnd.Chance(0.5) {
				out[j], src[j] = ii.kinds[j], j
			}
		}
		out[p], src[p] = "int64", -1
		m := add(PNode{Op: "map", In: []int{in}, Out: out, Src: src, Salt: rnd.Uint64(), Mod: rnd.Pick(3, 10, 100)}, nodeInfo{kinds: out, prefix: 1, shards: ii.shards, ordered: ii.ordered})
		if p > 1 {
			add(PNode{Op: "prefixed", In: []int{m}, P: p}, nodeInfo{kinds: out, prefix: p, shards: ii.shards, ordered: ii.ordered})
		}
		if rnd.Chance(0.7) {
			add(PNode{Op: "reduce", In: []int{len(sp.Nodes) - 1}, Fold: []string{"sum", "min", "max", "xor"}[rnd.Intn(4)]}, nodeInfo{kinds: out, prefix: p, shards: ii.shards})
		}
	case "filter":
		add(PNode{Op: "filter", In: []int{in}, P: rnd.Pick(2, 3, 10, 50), Salt: rnd.Uint64()}, ii)
	case "flatmap":
		if ii.prefix != 1 {
			return false
		}
		out := pickKinds(rnd, 1+rnd.Intn(3), rnd.Chance(0.8), vals)
		src := make([]int, len(out))
		for j := range out {
			src[j] = -1
		}
		fan := rnd.Pick(0, 1, 3, 3, 200)
		if ii.big && fan > 3 {
			fan = 3
		}
		add(PNode{Op: "flatmap", In: []int{in}, Out: out, Src: src, Salt: rnd.Uint64(), Mod: rnd.Pick(0, 3, 10, 100), P: fan}, nodeInfo{kinds: out, prefix: 1, shards: ii.shards, ordered: ii.ordered, big: ii.big || fan > 3})
	case "fold":
		// BUG(marius) in the Fold doc: slice grouping (prefix>1) is unsupported
		if nk < 2 || ii.prefix != 1 || !(ii.kinds[0] == "string" || ii.kinds[0] == "int" || ii.kinds[0] == "int64") {
			return false
		}
		add(PNode{Op: "fold", In: []int{in}, Salt: rnd.Uint64()}, nodeInfo{kinds: []string{ii.kinds[0], "int64"}, prefix: 1, shards: ii.shards})
	case "head":
		if !ii.ordered && (!last || o.NoWeakHead) {
			return false
		}
		ni := ii
		ni.weak = !ii.ordered
		add(PNode{Op: "head", In: []int{in}, P: rnd.Pick(0, 1, 5, 127, 128, 129, 1000)}, ni)
	case "reduce":
		if nk-ii.prefix != 1 || ii.kinds[nk-1] != "int64" || !keysOK(ii.kinds, ii.prefix) {
			return false
		}
		add(PNode{Op: "reduce", In: []int{in}, Fold: []string{"sum", "min", "max", "xor"}[rnd.Intn(4)]}, nodeInfo{kinds: ii.kinds, prefix: ii.prefix, shards: ii.shards})
	case "cogroup":
		if !keysOK(ii.kinds, ii.prefix) {
			return false
		}
		ins := []int{in}
		for c := range *info {
			if len(ins) < 3 && c != in && !(*info)[c].weak && !(*info)[c].unit && (*info)[c].prefix == ii.prefix && len((*info)[c].kinds) >= ii.prefix && rnd.Chance(0.6) {
				same := true
				for j := 0; j < ii.prefix; j++ {
					same = same && (*info)[c].kinds[j] == ii.kinds[j]
				}
				if same {
					ins = append(ins, c)
				}
			}
		}
		if len(ins) == 1 && rnd.Chance(0.5) {
			ins = append(ins, in)
		}
		kinds := append([]string{}, ii.kinds[:ii.prefix]...)
		shards := 0
		for _, c := range ins {
			for _, kk := range (*info)[c].kinds[ii.prefix:] {
				kinds = append(kinds, "[]"+kk)
			}
			if (*info)[c].shards > shards {
				shards = (*info)[c].shards
			}
		}
		add(PNode{Op: "cogroup", In: ins}, nodeInfo{kinds: kinds, prefix: ii.prefix, shards: shards})
	case "reshuffle":
		if !keysOK(ii.kinds, ii.prefix) {
			return false
		}
		add(PNode{Op: "reshuffle", In: []int{in}}, nodeInfo{kinds: ii.kinds, prefix: ii.prefix, shards: ii.shards})
	case "reshard":
		if !keysOK(ii.kinds, ii.prefix) {
			return false
		}
		ns := shardChoices[rnd.Intn(len(shardChoices))]
		ni := nodeInfo{kinds: ii.kinds, prefix: ii.prefix, shards: ns}
		if ns == ii.shards {
			ni.ordered = ii.ordered
		}
		add(PNode{Op: "reshard", In: []int{in}, Shards: ns}, ni)
	case "repartition":
		add(PNode{Op: "repartition", In: []int{in}, Salt: rnd.Uint64()}, nodeInfo{kinds: ii.kinds, prefix: ii.prefix, shards: ii.shards})
	case "prefixed":
		p := 1 + rnd.Intn(nk)
		for p > 1 && !keysOK(ii.kinds, p) {
			p--
		}
		ni := ii
		ni.prefix = p
		add(PNode{Op: "prefixed", In: []int{in}, P: p}, ni)
	case "writerfunc":
		add(PNode{Op: "writerfunc", In: []int{in}}, ii)
	}
	return len(g.sp.Nodes) > before
}

func genSpec(rnd *vf.Rand, o genOpts) Spec {
	g := newGen(rnd, o)
	g.addSource()
	if rnd.Chance(0.3) {
		g.addSource()
	}
	ops := o.Ops
	if ops == nil {
		ops = allGenOps
	}
	nops := 1 + rnd.Intn(o.MaxOps)
	for k := 0; k < nops; k++ {
		in := len(g.sp.Nodes) - 1
		if rnd.Chance(0.25) {
			in = rnd.Intn(len(g.sp.Nodes))
		}
		if g.info[in].weak || g.info[in].unit {
			break
		}
		g.addOp(ops[rnd.Intn(len(ops))], in, k == nops-1)
	}
	if !o.NoScan && rnd.Chance(0.1) {
		in := len(g.sp.Nodes) - 1
		if !g.info[in].weak && !g.info[in].unit {
			g.add(PNode{Op: "scan", In: []int{in}}, nodeInfo{unit: true, shards: g.info[in].shards})
		}
	}
	return g.sp
}

// genFrom extends an existing spec (whose relations are rels) by one operator on its last node.
func genFrom(rnd *vf.Rand, sp Spec, rels []*rel, op string, last bool) *Spec {
	g := newGen(rnd, genOpts{MaxOps: 1})
	g.sp = Spec{Nodes: append([]PNode{}, sp.Nodes...)}
	for _, r := range rels {
		// a relation that is already large (the result of a large fan-out) gets no further large
		// fan-out: the program would only be slow, not more revealing
		g.info = append(g.info, nodeInfo{kinds: r.Kinds, prefix: r.Prefix, shards: r.nshard(), ordered: r.Ordered && r.Placed, weak: r.Weak, unit: len(r.Kinds) == 0 && !r.Weak, big: r.count() > 3000})
	}
	if !g.addOp(op, len(g.sp.Nodes)-1, last) {
		return nil
	}
	return &g.sp
}

// specFeatures summarises a spec for evidence counters.
func specFeatures(sp *Spec) (f struct {
	Ops      int
	Shuffle  bool
	Sharing  bool
	Cogroup2 bool
	Boundary bool
	PrefixGT bool
	Nested   bool
}) {
	uses := map[int]int{}
	shuffles := 0
	for _, n := range sp.Nodes {
		for _, i := range n.In {
			uses[i]++
		}
		switch n.Op {
		case "fold", "reduce", "cogroup", "reshuffle", "repartition", "reshard":
			f.Shuffle = true
			shuffles++
		}
		if n.Op == "cogroup" && len(n.In) >= 2 {
			f.Cogroup2 = true
		}
		if n.Op == "prefixed" && n.P > 1 {
			f.PrefixGT = true
		}
		if n.Rows >= 127 && n.Rows <= 129 || n.Rows == 257 {
			f.Boundary = true
		}
		switch n.Op {
		case "const", "readerfunc", "scanreader", "arg":
		default:
			f.Ops++
		}
	}
	f.Nested = shuffles >= 2
	for _, c := range uses {
		if c > 1 {
			f.Sharing = true
		}
	}
	return
}

func specString(sp *Spec) string {
	s := ""
	for i, n := range sp.Nodes {
		s += fmt.Sprintf("%d:%s%v ", i, n.Op, n.In)
	}
	return s
}
