package props

import (
	"context"
	"flag"
	"fmt"
	"os"
	"sort"
	"strings"

	"github.com/grailbio/bigslice/slicefunc"
	"github.com/grailbio/bigslice/sliceio"
	"github.com/grailbio/bigslice/sortio"
	"verifharness/internal/vf"
)

// C10 — external sort, merge and reduce-merge at any spill size.

func init() { Registry["C10"] = runC10 }

type c10case struct {
	Kind   string    `json:"kind"` // sort | merge | reduce
	Schema int       `json:"schema"`
	Prefix int       `json:"prefix"`
	Rows   []int     `json:"rows"` // rows per stream (sort: one stream)
	Dist   string    `json:"dist"` // random | small | equal
	Spill  int       `json:"spilltarget,omitempty"`
	Canary int       `json:"canary,omitempty"`
	Batch  int       `json:"spillbatch"`
	Chunks [][]chunk `json:"chunks"` // upstream chunk script per stream
	Dest   []int     `json:"dest"`
	ErrAt  int       `json:"errat"` // inject an upstream error at this call of stream 0 (-1: none)
	// ErrRows: the failing call delivers up to this many rows together with the error, and the
	// stream reports EOF afterwards instead of repeating the error
	ErrRows int    `json:"errrows,omitempty"`
	Data    uint64 `json:"dataseed"`
}

// schemas usable for reduce: key columns followed by one int64 value column.
var c10schemas = []schema{
	{[]string{"int", "int64"}, 1},
	{[]string{"string", "int64"}, 1},
	{[]string{"uint8", "bytes", "int64"}, 2},
	{[]string{"bool", "int16", "string", "int64"}, 3},
	{[]string{"float64", "int64"}, 1},
	{[]string{"string", "ptrstruct", "int64"}, 1}, // sort/merge only (value column is not last-key)
	{[]string{"uint64", "int64"}, 1},
}

func spillDirs() []string {
	ents, _ := os.ReadDir(os.TempDir())
	var out []string
	for _, e := range ents {
		if strings.HasPrefix(e.Name(), "spiller-") {
			out = append(out, e.Name())
		}
	}
	return out
}

func setFlag(name string, v int) {
	if err := flag.Set(name, fmt.Sprint(v)); err != nil {
		panic(err)
	}
}

func sortRows(ts []*colType, prefix int, rows []row) {
	sort.SliceStable(rows, func(i, j int) bool { return cmpKey(ts, prefix, rows[i], rows[j]) < 0 })
}

func runC10case(t *vf.T, c c10case) {
	sc := c10schemas[c.Schema]
	ts := sc.types()
	typ := sc.sliceType(c.Prefix)
	rnd := vf.NewRand(c.Data)
	if c.Canary > 0 {
		setFlag("bigslice-internal-default-sort-canary-rows", c.Canary)
	}
	sliceio.SpillBatchSize = c.Batch
	defer func() { sliceio.SpillBatchSize = 128; setFlag("bigslice-internal-default-sort-canary-rows", 256) }()
	gen := func(n int, uniqueKeys bool) []row {
		rows := make([]row, 0, n)
		seen := map[string]bool{}
		for tries := 0; len(rows) < n && tries < n*20+20; tries++ {
			var rw row
			switch c.Dist {
			case "equal":
				rw = genRow(ts, vf.NewRand(c.Data), true)
				rw[len(rw)-1] = int64(rnd.Intn(100))
			case "small":
				rw = genRow(ts, rnd, true)
			default:
				rw = genRow(ts, rnd, false)
			}
			if uniqueKeys {
				k := rowStr(rw[:c.Prefix])
				if seen[k] {
					continue
				}
				seen[k] = true
			}
			rows = append(rows, rw)
		}
		return rows
	}
	sig := fmt.Sprintf("%s", c.Kind)
	ctx := context.Background()
	before := len(spillDirs())
	switch c.Kind {
	case "sort":
		in := gen(c.Rows[0], false)
		script := append([]chunk{}, c.Chunks[0]...)
		up := newChunkedReader(ts, cloneRows(in), script)
		if c.ErrAt >= 0 {
			up.script = make([]chunk, 0)
			for i := 0; i < c.ErrAt; i++ {
				up.script = append(up.script, c.Chunks[0][i%len(c.Chunks[0])])
			}
			up.script = append(up.script, chunk{Err: true, N: c.ErrRows})
		}
		r, err := sortio.SortReader(ctx, c.Spill, typ, up)
		if n := len(spillDirs()); n > before {
			t.Violate(sig+" spill-files-outlive-constructor", fmt.Sprintf("%d spiller directories exist after SortReader returned: %v", n-before, spillDirs()))
			return
		}
		t.Count("spill_dir_checks", 1)
		if c.ErrAt >= 0 {
			if err == nil {
				res := driveReader(ts, r, c.Dest, rnd, len(in)*2+50)
				err = res.err
				if res.bad != "" {
					t.Violate(sig+" "+res.bad, res.what)
					return
				}
			}
			if !up.erred {
				return // the stream ended before the scripted failure
			}
			if err == nil {
				t.Violate(sig+" upstream-error-swallowed", fmt.Sprintf("upstream failed at call %d but the sorting reader ended with a clean EOF", c.ErrAt))
			} else {
				t.Count("injected_errors_propagated", 1)
			}
			t.Nontrivial("")
			return
		}
		if err != nil {
			t.Violate(sig+" error", "SortReader: "+err.Error())
			return
		}
		res := driveReader(ts, r, c.Dest, rnd, len(in)*2+50)
		if res.bad != "" {
			t.Violate(sig+" "+res.bad, res.what)
			return
		}
		if res.err != nil {
			t.Violate(sig+" error", "sorted reader failed: "+res.err.Error())
			return
		}
		for i := 1; i < len(res.rows); i++ {
			if cmpKey(ts, c.Prefix, res.rows[i-1], res.rows[i]) > 0 {
				t.Violate(sig+" order", fmt.Sprintf("rows %d,%d out of key order: %s %s", i-1, i, rowStr(res.rows[i-1]), rowStr(res.rows[i])))
				return
			}
		}
		if !sameMultiset(in, res.rows) {
			t.Violate(sig+" multiset", fmt.Sprintf("output (%d rows) is not a permutation of the input (%d rows): in=%s out=%s", len(res.rows), len(in), rowsStr(in), rowsStr(res.rows)))
			return
		}
		nspill := 1
		if c.Canary > 0 && len(in) > c.Canary {
			nspill = 2
			t.Nontrivial("")
		}
		t.Count("rows_sorted", int64(len(in)))
		t.Count("sorts_with_multiple_spills", int64(nspill-1))
	case "merge", "reduce":
		var readers []sliceio.Reader
		var all []row
		var up0 *chunkedReader
		for i, n := range c.Rows {
			rows := gen(n, c.Kind == "reduce")
			sortRows(ts, c.Prefix, rows)
			all = append(all, cloneRows(rows)...)
			script := c.Chunks[i%len(c.Chunks)]
			up := newChunkedReader(ts, rows, script)
			if c.ErrAt >= 0 && i == 0 {
				up.script = nil
				for j := 0; j < c.ErrAt; j++ {
					up.script = append(up.script, script[j%len(script)])
				}
				up.script = append(up.script, chunk{Err: true, N: c.ErrRows})
				up0 = up
			}
			readers = append(readers, up)
		}
		var r sliceio.Reader
		var err error
		if c.Kind == "merge" {
			r, err = sortio.NewMergeReader(ctx, typ, readers)
		} else {
			fn, _ := slicefunc.Of(func(a, b int64) int64 { return a + b })
			r = sortio.Reduce(typ, "verif", readers, fn)
		}
		var res driveResult
		if err == nil {
			res = driveReader(ts, r, c.Dest, rnd, len(all)*2+50)
			err = res.err
		}
		if res.bad != "" {
			t.Violate(sig+" "+res.bad, res.what)
			return
		}
		if c.ErrAt >= 0 {
			if !up0.erred {
				return
			}
			if err == nil {
				t.Violate(sig+" upstream-error-swallowed", fmt.Sprintf("stream 0 failed at call %d but the %s reader ended with a clean EOF after %d rows", c.ErrAt, c.Kind, len(res.rows)))
			} else {
				t.Count("injected_errors_propagated", 1)
			}
			t.Nontrivial("")
			return
		}
		if err != nil {
			t.Violate(sig+" error", c.Kind+" reader failed: "+err.Error())
			return
		}
		var want []row
		if c.Kind == "merge" {
			want = all
			for i := 1; i < len(res.rows); i++ {
				if cmpKey(ts, c.Prefix, res.rows[i-1], res.rows[i]) > 0 {
					t.Violate(sig+" order", fmt.Sprintf("rows %d,%d out of key order: %s %s", i-1, i, rowStr(res.rows[i-1]), rowStr(res.rows[i])))
					return
				}
			}
			if !sameMultiset(want, res.rows) {
				t.Violate(sig+" multiset", fmt.Sprintf("merge output (%d rows) is not the union of the inputs (%d rows): out=%s", len(res.rows), len(want), rowsStr(res.rows)))
				return
			}
		} else {
			sortRows(ts, c.Prefix, all)
			for _, rw := range all {
				if n := len(want); n > 0 && cmpKey(ts, c.Prefix, want[n-1], rw) == 0 {
					want[n-1][len(rw)-1] = want[n-1][len(rw)-1].(int64) + rw[len(rw)-1].(int64)
				} else {
					want = append(want, cloneRow(rw))
				}
			}
			// only key columns and the value are compared (non-key payload columns are not in these schemas)
			if d := rowsDiff(res.rows, want, true); d != "" {
				t.Violate(sig+" rows", "reduce-merge: "+d)
				return
			}
		}
		if len(c.Rows) >= 2 {
			t.Nontrivial("")
		}
		t.Count("rows_merged", int64(len(all)))
		t.Count("streams", int64(len(c.Rows)))
	}
}

func runC10(r *vf.Runner) {
	run := func(c c10case) { r.Case(c, func(t *vf.T) { runC10case(t, c) }) }
	rnd := r.Rand("c10")
	chunkScripts := [][]chunk{
		{{N: 1 << 20}}, {{N: 1}}, {{N: 3}, {N: 0}}, {{N: 0}, {N: 0}, {N: 5}}, {{N: 1 << 20, EOF: true}}, {{N: 2, EOF: true}}, {{N: 127}, {N: 1}, {N: 129, EOF: true}},
	}
	noEmpty := [][]chunk{{{N: 1 << 20}}, {{N: 1}}, {{N: 3}, {N: 7, EOF: true}}, {{N: 1 << 20, EOF: true}}, {{N: 127}, {N: 1}, {N: 129, EOF: true}}}
	// fixed regression list
	for si := range c10schemas {
		for _, n := range []int{0, 1, 2, 127, 128, 129, 700} {
			for _, dist := range []string{"random", "equal"} {
				run(c10case{Kind: "sort", Schema: si, Prefix: c10schemas[si].MaxKey, Rows: []int{n}, Dist: dist, Spill: 1, Canary: 1 + n/5, Batch: 3, Chunks: chunkScripts[2:3], Dest: []int{5}, ErrAt: -1, Data: uint64(si*10 + n)})
			}
		}
		if si != 5 {
			run(c10case{Kind: "reduce", Schema: si, Prefix: c10schemas[si].MaxKey, Rows: []int{0, 5, 0, 300, 1}, Dist: "small", Batch: 128, Chunks: noEmpty, Dest: []int{1, 128}, ErrAt: -1, Data: uint64(si)})
		}
		run(c10case{Kind: "merge", Schema: si, Prefix: c10schemas[si].MaxKey, Rows: []int{0, 5, 0, 300, 1}, Dist: "small", Batch: 2, Chunks: noEmpty, Dest: []int{1, 128}, ErrAt: -1, Data: uint64(si)})
		run(c10case{Kind: "merge", Schema: si, Prefix: 1, Rows: []int{}, Dist: "small", Batch: 2, Chunks: noEmpty, Dest: []int{4}, ErrAt: -1, Data: uint64(si)})
	}
	// a failing read that delivers rows together with its error, after which the stream reports EOF
	for _, kind := range []string{"sort", "merge", "reduce"} {
		for _, at := range []int{0, 1, 2} {
			for _, er := range []int{1, 50, 200} {
				c := c10case{Kind: kind, Schema: 0, Prefix: 1, Rows: []int{400, 5, 300}, Dist: "small", Spill: 100, Canary: 17, Batch: 128, Chunks: noEmpty, Dest: []int{128}, ErrAt: at, ErrRows: er, Data: uint64(at*7 + er)}
				if kind == "sort" {
					c.Rows = []int{400}
					c.Chunks = noEmpty[:1]
				}
				if kind == "reduce" {
					c.Prefix = c10schemas[0].MaxKey
				}
				run(c)
			}
		}
	}
	n := 400
	if !r.Quick() {
		n = 12000
	}
	for i := 0; i < n; i++ {
		si := rnd.Intn(len(c10schemas))
		c := c10case{Schema: si, Prefix: 1 + rnd.Intn(c10schemas[si].MaxKey), Dist: []string{"random", "small", "small", "equal"}[rnd.Intn(4)], Data: rnd.Uint64(), ErrAt: -1,
			Batch: rnd.Pick(1, 2, 3, 128)}
		for j, k := 0, 1+rnd.Intn(3); j < k; j++ {
			c.Dest = append(c.Dest, rnd.Pick(1, 2, 3, 64, 127, 128, 129, 300))
		}
		switch rnd.Intn(3) {
		case 0:
			c.Kind = "sort"
			c.Rows = []int{rnd.Pick(0, 1, 5, 50, 200, 600, 1500)}
			c.Spill = rnd.Pick(1, 10, 100, 1000, 100000)
			c.Canary = rnd.Pick(1, 2, 3, 17, 128, 300)
			c.Chunks = [][]chunk{chunkScripts[rnd.Intn(len(chunkScripts))]}
			if rnd.Chance(0.15) {
				c.ErrAt = rnd.Intn(6)
			}
		case 1:
			c.Kind = "merge"
		default:
			c.Kind = "reduce"
			if si == 5 {
				c.Kind = "merge"
			} else {
				c.Prefix = c10schemas[si].MaxKey
			}
		}
		if c.Kind != "sort" {
			for j, k := 0, rnd.Intn(6); j < k; j++ {
				c.Rows = append(c.Rows, rnd.Pick(0, 0, 1, 3, 40, 128, 129, 400))
			}
			for j := 0; j < 3; j++ {
				c.Chunks = append(c.Chunks, noEmpty[rnd.Intn(len(noEmpty))])
			}
			if rnd.Chance(0.15) && len(c.Rows) > 0 {
				c.ErrAt = rnd.Intn(4)
			}
		}
		run(c)
	}
}
