package props

import (
	"fmt"
	"sort"
	"strings"
	"time"

	"github.com/grailbio/bigslice"
	"github.com/grailbio/bigslice/exec"
	"github.com/grailbio/bigslice/sliceio"
	"verifharness/internal/vf"
)

// C04 — results do not depend on how the computation is executed.

func init() { Registry["C04"] = runC04 }

type execConf struct {
	Sess           sessConf `json:"sess"`
	Chunk          int      `json:"chunkrows"`  // -bigslice-internal-default-chunk-rows (powers of two only)
	Canary         int      `json:"sortcanary"` // -bigslice-internal-default-sort-canary-rows
	SpillBatch     int      `json:"spillbatch"` // sliceio.SpillBatchSize
	ShuffleReaders bool     `json:"shufflereaders"`
	Pragmas        uint64   `json:"pragmaseed"` // 0: none; else pragmas are placed at seed-chosen operators
}

func (e execConf) String() string {
	return fmt.Sprintf("%s/chunk%d/canary%d/spill%d/shuf%v/prag%d", e.Sess, e.Chunk, e.Canary, e.SpillBatch, e.ShuffleReaders, e.Pragmas%1000)
}

func (e execConf) apply() func() {
	setFlag("bigslice-internal-default-chunk-rows", e.Chunk)
	setFlag("bigslice-internal-default-sort-canary-rows", e.Canary)
	oldB, oldS := sliceio.SpillBatchSize, exec.DoShuffleReaders
	sliceio.SpillBatchSize = e.SpillBatch
	exec.DoShuffleReaders = e.ShuffleReaders
	return func() {
		setFlag("bigslice-internal-default-chunk-rows", 128)
		setFlag("bigslice-internal-default-sort-canary-rows", 256)
		sliceio.SpillBatchSize, exec.DoShuffleReaders = oldB, oldS
	}
}

// withPragmas returns a copy of the spec with pragmas placed at seed-chosen operators.
func withPragmas(sp Spec, seed uint64) Spec {
	if seed == 0 {
		return sp
	}
	rnd := vf.NewRand(seed)
	out := sp
	out.Nodes = append([]PNode{}, sp.Nodes...)
	for i := range out.Nodes {
		switch out.Nodes[i].Op {
		case "readerfunc", "map", "filter", "flatmap":
			if rnd.Chance(0.5) {
				out.Nodes[i].Pragma = []string{"procs2", "exclusive", "materialize"}[rnd.Intn(3)]
			}
		}
	}
	return out
}

type c04case struct {
	Spec  Spec       `json:"spec"`
	Confs []execConf `json:"confs"`
}

func defaultExec(s sessConf) execConf {
	return execConf{Sess: s, Chunk: 128, Canary: 256, SpillBatch: 128, ShuffleReaders: true}
}

func genExecConf(rnd *vf.Rand) execConf {
	e := execConf{Chunk: rnd.Pick(1, 2, 4, 8, 128, 128), Canary: rnd.Pick(1, 2, 256, 256), SpillBatch: rnd.Pick(1, 3, 128, 128), ShuffleReaders: rnd.Bool()}
	if rnd.Chance(0.5) {
		e.Sess = sessConf{Kind: "local", P: rnd.Pick(1, 4, 16)}
	} else {
		mp := rnd.Pick(1, 2, 4)
		e.Sess = sessConf{Kind: "bigmachine", P: mp * rnd.Pick(1, 2, 4), MachProcs: mp, MaxLoad: []float64{0.3, 0.95}[rnd.Intn(2)], Combiners: rnd.Chance(0.4)}
	}
	if rnd.Chance(0.4) {
		e.Pragmas = 1 + rnd.Uint64()%1000000
	}
	return e
}

func canonRows(rows []row, ordered bool) []string {
	out := make([]string, len(rows))
	for i, r := range rows {
		out[i] = progRowStr(r)
	}
	if !ordered {
		sort.Strings(out)
	}
	return out
}

func counterValues(res *exec.Result) [nCounters]int64 {
	var v [nCounters]int64
	sc := res.Scope()
	for i, c := range verifCounters {
		v[i] = c.Value(sc)
	}
	return v
}

func runC04case(t *vf.T, pool *sessionPool, c c04case) {
	want, _, err := evalSpec(&c.Spec, nil)
	if err != nil || want.Weak {
		return
	}
	ordered := want.Ordered && want.Placed
	compareCounters := !hasOp(&c.Spec, "head")
	type obs struct {
		conf  execConf
		rows  []string
		ctrs  [nCounters]int64
		incrs [nCounters]int64
	}
	var seen []obs
	kinds := map[string]bool{}
	for ci, e := range c.Confs {
		sp := withPragmas(c.Spec, e.Pragmas)
		sp.Run = fmt.Sprintf("c04-%d-%d", t.Index(), ci)
		restore := e.apply()
		ls := pool.get(e.Sess)
		out := runSpec(ls, sp, [2]bigslice.Slice{}, true, 180*time.Second)
		restore()
		pr := probeFor(sp.Run)
		var incrs [nCounters]int64
		pr.mu.Lock()
		for k, v := range pr.incrs {
			incrs[k] = *v
		}
		pr.mu.Unlock()
		probes.Delete(sp.Run)
		sig := fmt.Sprintf("ops=%s", opSig(&c.Spec))
		switch {
		case out.TimedOut:
			t.Inconclusive("watchdog under " + e.String())
			pool.drop(e.Sess)
			return
		case out.Panic != nil:
			t.Violate(sig+" panic:"+out.PanicAt, fmt.Sprintf("under %s: %v", e, out.Panic))
			pool.drop(e.Sess)
			return
		case out.RunErr != nil || out.ScanErr != nil:
			t.Violate(sig+" error conf="+confClass(e), fmt.Sprintf("under %s: run: %v scan: %v | %s", e, out.RunErr, out.ScanErr, specString(&c.Spec)))
			pool.drop(e.Sess)
			return
		}
		o := obs{conf: e, rows: canonRows(out.Rows, ordered), ctrs: counterValues(out.Res), incrs: incrs}
		out.Res.Discard(bgctx)
		if d := compareResult(out.Rows, want); d != "" {
			t.Violate(sig+" differs-from-reference conf="+confClass(e), fmt.Sprintf("under %s: %s | %s", e, d, specString(&c.Spec)))
			return
		}
		for _, p := range seen {
			if strings.Join(p.rows, "\n") != strings.Join(o.rows, "\n") {
				t.Violate(sig+" rows-differ-between-configurations", fmt.Sprintf("%s vs %s: %d vs %d rows | %s", p.conf, e, len(p.rows), len(o.rows), specString(&c.Spec)))
				return
			}
			t.Count("configuration_pairs_compared", 1)
			if compareCounters {
				if p.ctrs != o.ctrs {
					t.Violate(sig+" counters-differ-between-configurations "+confClass(p.conf)+"/"+confClass(e), fmt.Sprintf("%s: %v vs %s: %v | %s", p.conf, p.ctrs, e, o.ctrs, specString(&c.Spec)))
					return
				}
				t.Count("counter_vectors_compared", 1)
			}
		}
		if compareCounters && o.ctrs != o.incrs {
			t.Violate(sig+" counters-differ-from-increments conf="+confClass(e), fmt.Sprintf("under %s: result scope reports %v, the user functions performed %v increments | %s", e, o.ctrs, o.incrs, specString(&c.Spec)))
			return
		}
		seen = append(seen, o)
		if compareCounters && o.incrs != ([nCounters]int64{}) {
			t.Count("runs_with_nonzero_counters", 1)
			n := int64(0)
			for _, v := range o.incrs {
				n += v
			}
			t.Count("increments_checked", n)
		}
		kinds[e.Sess.Kind] = true
		t.Seen("configurations", e.String())
	}
	t.Count("programs", 1)
	if len(kinds) >= 2 {
		t.Nontrivial("")
	}
}

func confClass(e execConf) string {
	s := e.Sess.Kind
	if e.Sess.Combiners {
		s += "+machinecombiners"
	}
	return s
}

func runC04(r *vf.Runner) {
	pool := &sessionPool{}
	defer pool.closeAll()
	rnd := r.Rand("c04")
	np, nc := 25, 6
	if !r.Quick() {
		np, nc = 400, 16
	}
	opts := genOpts{MaxOps: 6, Sources: []string{"const", "readerfunc", "readerfunc", "scanreader"}, NoWeakHead: true, NoScan: true, Ctx: true}
	for i := 0; i < np; i++ {
		c := c04case{Spec: genSpec(rnd.Fork(), opts)}
		c.Confs = append(c.Confs, defaultExec(localP4), defaultExec(bm2))
		for len(c.Confs) < nc {
			c.Confs = append(c.Confs, genExecConf(rnd))
		}
		r.Case(c, func(t *vf.T) { runC04case(t, pool, c) })
	}
	// Diamonds: a multi-shard slice consumed twice in one invocation, directly and through a shuffle
	// of every width, with and without a Materialize pragma on it (the programs of C08's
	// shared-producer family, here executed): the rows must not depend on the pragma.
	di := 0
	for _, sc := range genC08shared() {
		if sc.WithArg || sc.Combiners {
			continue
		}
		di++
		if r.Quick() && di%6 != 0 {
			continue
		}
		for _, pragma := range []string{"materialize", ""} {
			sp := Spec{Nodes: append([]PNode{}, sc.Spec.Nodes...)}
			for i := range sp.Nodes {
				if sp.Nodes[i].Pragma == "materialize" {
					sp.Nodes[i].Pragma = pragma
				}
			}
			c := c04case{Spec: sp, Confs: []execConf{defaultExec(localP4), defaultExec(bm2)}}
			r.Case(c, func(t *vf.T) {
				runC04case(t, pool, c)
				t.Count("diamond_programs", 1)
			})
		}
	}
	// Same-shaped branches: k task sets with the same operator sequence in one invocation, each feeding
	// a shuffle, with different data. Their names (and, with machine combiners, their combine keys) may
	// only differ in what the compiler adds to tell them apart; executors that address tasks by name
	// must still keep them apart.
	for _, shape := range []string{"const", "readerfunc>map", "const>reduce", "readerfunc>map>reduce"} {
		for _, k := range []int{2, 3} {
			for _, nested := range []bool{false, true} {
				var nodes []PNode
				var heads []int
				nb := k
				if nested {
					nb = k + 1
				}
				for b := 0; b < nb; b++ {
					ops := strings.Split(shape, ">")
					srcOp := ops[0]
					nodes = append(nodes, PNode{Op: srcOp, Shards: 2, Rows: 60 + 7*b, Out: []string{"int", "int64"}, Salt: uint64(1000 + 31*b), Mod: 9, Chunks: []int{16}})
					cur := len(nodes) - 1
					for _, op := range ops[1:] {
						switch op {
						case "map":
							nodes = append(nodes, PNode{Op: "map", In: []int{cur}, Salt: 3, Out: []string{"int", "int64"}, Src: []int{0, 1}})
						case "reduce":
							nodes = append(nodes, PNode{Op: "reduce", In: []int{cur}, Fold: "sum"})
						}
						cur = len(nodes) - 1
					}
					heads = append(heads, cur)
				}
				if nested {
					// the last two branches are joined first, the result with the others
					nodes = append(nodes, PNode{Op: "cogroup", In: append([]int{}, heads[len(heads)-2:]...), Shards: 2})
					heads = append(heads[:len(heads)-2], len(nodes)-1)
					if len(heads) > 3 {
						heads = heads[len(heads)-3:]
					}
				}
				nodes = append(nodes, PNode{Op: "cogroup", In: append([]int{}, heads...), Shards: 3})
				c := c04case{Spec: Spec{Nodes: nodes}}
				for _, sc := range []sessConf{localP4, bm2,
					{Kind: "bigmachine", P: 4, MachProcs: 2, MaxLoad: 0.95, Combiners: true}} {
					c.Confs = append(c.Confs, defaultExec(sc))
				}
				r.Case(c, func(t *vf.T) {
					runC04case(t, pool, c)
					t.Count("same_shaped_branch_programs", 1)
				})
			}
		}
	}
	// Combiner contention: many reduce tasks with many keys per partition share one machine, so
	// that with machine combiners several tasks of an operator compete for the per-partition
	// combiner of their machine while their own small frames fill up.
	nh := 6
	if !r.Quick() {
		nh = 60
	}
	for i := 0; i < nh; i++ {
		keys := rnd.Pick(40, 500, 500, 3000)
		src := PNode{Op: "readerfunc", Shards: rnd.Pick(4, 8, 16), Rows: rnd.Pick(1000, 4000, 4000), Out: []string{rnd.PickS("int", "string", "int"), "int64"}, Salt: rnd.Uint64(), Mod: keys, Chunks: []int{rnd.Pick(7, 128, 1000)}}
		c := c04case{Spec: Spec{Nodes: []PNode{src, {Op: "reduce", In: []int{0}, Fold: rnd.PickS("sum", "sum", "min", "xor")}}}}
		if i%3 == 2 {
			c.Spec.Nodes = append(c.Spec.Nodes, PNode{Op: "reshard", In: []int{1}, Shards: 3}, PNode{Op: "reduce", In: []int{2}, Fold: "sum"})
		}
		for _, sc := range []sessConf{localP4,
			{Kind: "bigmachine", P: 8, MachProcs: 4, MaxLoad: 0.95, Combiners: true},
			{Kind: "bigmachine", P: 4, MachProcs: 2, MaxLoad: 0.95, Combiners: true},
			{Kind: "bigmachine", P: 8, MachProcs: 4, MaxLoad: 0.95}} {
			c.Confs = append(c.Confs, defaultExec(sc))
		}
		r.Case(c, func(t *vf.T) {
			runC04case(t, pool, c)
			t.Count("combiner_contention_programs", 1)
		})
	}
}
