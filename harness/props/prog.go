package props

import (
	"context"
	"encoding/gob"
	"fmt"
	baseerrors "github.com/grailbio/base/errors"
	"hash/fnv"
	"io"
	"math"
	"reflect"
	"sort"
	"strings"
	"sync"
	"sync/atomic"
	"time"

	"github.com/grailbio/bigslice"
	"github.com/grailbio/bigslice/metrics"
	"github.com/grailbio/bigslice/sliceio"
)

// Program specs (DESIGN §3.1). A spec is a small gob-encodable DAG; one registered
// bigslice.Func builds the slice from it, so the same spec yields the same slice in the
// driver and, from the transported invocation, in a worker. All user functions are pure,
// deterministic functions of the spec (evalMap, keepRow, fanOut, ...), shared by the built
// slice and by the reference evaluator: the oracle checks the engine, not the functions.

// PNode is one operator of a program.
type PNode struct {
	Op     string   // const readerfunc scanreader map filter flatmap fold head reduce cogroup reshuffle repartition reshard prefixed scan writerfunc arg cache cachepartial readcache
	In     []int    // input node indices
	Arg    int      // for Op=="arg": which Func argument (0,1)
	Shards int      // sources, reshard
	P      int      // head n / prefix / filter divisor / flatmap max fan-out
	Salt   uint64   // function salt
	Out    []string // output column kinds (sources, map, flatmap)
	Src    []int    // map/flatmap: per output column, source column (-1: hashed value)
	Mod    int      // modulus of hashed values (small => colliding keys)
	Rows   int      // const: total rows; readerfunc/scanreader: rows per shard / total lines
	Chunks []int    // readerfunc: rows per call (cycled); 0 = empty call; negative = |k| rows with EOF
	Pragma string   // "", procs2, exclusive, materialize
	Fold   string   // sum min max xor
	Ctx    bool     // user function takes a context and increments a metrics counter
	Path   string   // cache prefix
	Vals   []uint64 // Op=="keys": explicit key values (see keyFromBits); the last column is int64(1)
}

// FailSpec scripts a user-function failure (C06).
type FailSpec struct {
	Node    int
	Mode    string // error temporary panic badpartition
	AtCall  int    // fail at the k-th invocation (per process-wide counter of that node) ...
	Persist bool   // ... and on every later one; otherwise only on that one
	Msg     string
}

// Spec is a whole program.
type Spec struct {
	Run   string // run id: keys the recorder
	Nodes []PNode
	Fail  *FailSpec
	Delay int // microseconds of sleep at seed-chosen user-function calls (schedule perturbation)
}

func init() {
	gob.Register(Spec{})
}

var kindTypes = map[string]reflect.Type{
	"int": reflect.TypeOf(int(0)), "int64": reflect.TypeOf(int64(0)), "int32": reflect.TypeOf(int32(0)), "int16": reflect.TypeOf(int16(0)), "int8": reflect.TypeOf(int8(0)),
	"uint": reflect.TypeOf(uint(0)), "uint8": reflect.TypeOf(uint8(0)), "uint16": reflect.TypeOf(uint16(0)), "uint32": reflect.TypeOf(uint32(0)), "uint64": reflect.TypeOf(uint64(0)),
	"string": reflect.TypeOf(""), "bool": reflect.TypeOf(false), "float64": reflect.TypeOf(float64(0)), "float32": reflect.TypeOf(float32(0)), "bytes": reflect.TypeOf([]byte(nil)),
	"plain": reflect.TypeOf(PlainStruct{}), "ptrstruct": reflect.TypeOf(PtrStruct{}), "gobonly": reflect.TypeOf(GobOnly{}),
}

func kindType(k string) reflect.Type {
	if strings.HasPrefix(k, "[]") {
		return reflect.SliceOf(kindType(k[2:]))
	}
	t := kindTypes[k]
	if t == nil {
		panic("unknown kind " + k)
	}
	return t
}

// keyKinds can be used as key columns (frame ops registered).
// uint8 is left out of generated programs: a cogroup group of uint8 values is a []uint8, which is
// indistinguishable from a []byte cell whose order matters. C05 covers uint8 keys on its own.
var keyKinds = []string{"int", "int64", "string", "uint16", "int32", "bool", "float64", "bytes", "uint64", "int8"}
var valKinds = []string{"int", "int64", "string", "uint16", "bool", "float64", "bytes", "plain", "ptrstruct", "gobonly"}

func isKeyKind(k string) bool {
	for _, x := range keyKinds {
		if x == k {
			return true
		}
	}
	return false
}

// mkVal maps a number to a value of the kind.
func mkVal(kind string, u uint64) any {
	switch kind {
	case "int":
		return int(u) - 3
	case "int64":
		return int64(u) - 5
	case "int32":
		return int32(u) - 2
	case "int16":
		return int16(u)
	case "int8":
		return int8(u)
	case "uint":
		return uint(u)
	case "uint8":
		return uint8(u)
	case "uint16":
		return uint16(u)
	case "uint32":
		return uint32(u)
	case "uint64":
		return u
	case "string":
		if u%7 == 0 {
			return ""
		}
		return fmt.Sprintf("s%d", u)
	case "bool":
		return u&1 == 1
	case "float64":
		return float64(u) / 2
	case "float32":
		return float32(u) / 2
	case "bytes":
		return []byte(fmt.Sprintf("b%d", u))
	case "plain":
		return PlainStruct{A: int(u), B: int32(u % 100)}
	case "ptrstruct":
		x := int(u) + 1
		return PtrStruct{S: fmt.Sprintf("p%d", u), P: &x}
	case "gobonly":
		return GobOnly{M: map[string]int{"k": int(u) + 1}, L: []string{fmt.Sprintf("l%d", u)}}
	}
	panic("mkVal: kind " + kind)
}

// cellStr is the canonical text of a cell; slices other than []byte (cogroup groups) are
// rendered as sorted multisets because their order is unspecified.
func cellStr(v any) string {
	switch x := v.(type) {
	case nil:
		return "nil"
	case []byte:
		return fmt.Sprintf("x%x", x)
	case string:
		return fmt.Sprintf("%q", x)
	case PtrStruct:
		if x.P == nil {
			return fmt.Sprintf("{%q nil}", x.S)
		}
		return fmt.Sprintf("{%q %d}", x.S, *x.P)
	case GobOnly:
		ks := make([]string, 0, len(x.M))
		for k, v := range x.M {
			ks = append(ks, fmt.Sprintf("%s=%d", k, v))
		}
		sort.Strings(ks)
		return fmt.Sprintf("{%v %v}", ks, x.L)
	case float64:
		if x == 0 {
			return "0" // +0 and -0 are the same key; which representative is emitted is unspecified
		}
		return fmt.Sprintf("%v", x)
	case float32:
		if x == 0 {
			return "0"
		}
		return fmt.Sprintf("%v", x)
	}
	rv := reflect.ValueOf(v)
	if rv.Kind() == reflect.Slice {
		parts := make([]string, rv.Len())
		for i := range parts {
			parts[i] = cellStr(rv.Index(i).Interface())
		}
		sort.Strings(parts)
		return "[" + strings.Join(parts, " ") + "]"
	}
	return fmt.Sprintf("%v", v)
}

func progRowStr(r row) string {
	s := make([]string, len(r))
	for i := range r {
		s[i] = cellStr(r[i])
	}
	return "(" + strings.Join(s, ",") + ")"
}

func hashRow(r row, salt uint64) uint64 {
	h := fnv.New64a()
	fmt.Fprintf(h, "%d|", salt)
	for _, c := range r {
		io.WriteString(h, cellStr(c))
		h.Write([]byte{0})
	}
	x := h.Sum64()
	x ^= x >> 29
	x *= 0xBF58476D1CE4E5B9
	x ^= x >> 32
	return x
}

// ---- the user functions, as pure functions of (node, row)

func evalMap(n *PNode, in row, extra uint64) row {
	out := make(row, len(n.Out))
	for j, k := range n.Out {
		if n.Src[j] >= 0 {
			out[j] = in[n.Src[j]]
		} else {
			mod := uint64(n.Mod)
			if mod == 0 {
				mod = 1 << 40
			}
			out[j] = mkVal(k, hashRow(in, n.Salt+uint64(j)*7919+extra*104729)%mod)
		}
	}
	return out
}

func keepRow(n *PNode, in row) bool {
	d := uint64(n.P)
	if d == 0 {
		d = 2
	}
	return hashRow(in, n.Salt)%d != 0
}

func fanOut(n *PNode, in row) int {
	h := hashRow(in, n.Salt^0xfa)
	if h%5 == 0 {
		return 0
	}
	return int(h % uint64(n.P+1))
}

func foldVal(in row, salt uint64) int64 { return int64(hashRow(in, salt)%1000) - 300 }

func foldStep(kind string, acc, v int64, first bool) int64 {
	switch kind {
	case "xor":
		return acc ^ v
	case "min":
		if first || v < acc {
			return v
		}
		return acc
	case "max":
		if first || v > acc {
			return v
		}
		return acc
	}
	return acc + v
}

func partitionOf(n *PNode, in row, nshard int) int {
	return int(hashRow(in, n.Salt^0x9a) % uint64(nshard))
}

// sourceRows are the rows of shard s of a source node (readerfunc/scanreader semantic) or all rows (const).
func sourceRows(n *PNode, shard int) []row {
	if n.Op == "keys" {
		rows := make([]row, len(n.Vals))
		for i, v := range n.Vals {
			r := make(row, len(n.Out))
			for j, k := range n.Out {
				if j == len(n.Out)-1 {
					r[j] = int64(1)
				} else {
					r[j] = keyFromBits(k, v/pow7[j])
				}
			}
			rows[i] = r
		}
		return rows
	}
	cnt := n.Rows
	rows := make([]row, cnt)
	for i := range rows {
		r := make(row, len(n.Out))
		for j, k := range n.Out {
			mod := uint64(n.Mod)
			if mod == 0 {
				mod = 1 << 40
			}
			r[j] = mkVal(k, hashRow(row{shard, i, j}, n.Salt)%mod)
		}
		rows[i] = r
	}
	return rows
}

func scanLines(n *PNode) []string {
	lines := make([]string, n.Rows)
	for i := range lines {
		lines[i] = fmt.Sprintf("line-%d-%d", i, hashRow(row{i}, n.Salt)%uint64(n.Mod+1))
	}
	return lines
}

// ---- recorder: what side-effecting callbacks and instrumented user functions observed

type recKey struct {
	Run   string
	Node  int
	Shard int
}

// recAttempt is what one execution of a callback sequence (one task attempt) observed.
type recAttempt struct {
	Rows []row
	EOFs int
}

type recEntry struct {
	Attempts []*recAttempt
}

type runProbe struct {
	mu          sync.Mutex
	entries     map[recKey]*recEntry
	calls       map[int]*int64   // user-function invocations per node
	incrs       map[int]*int64   // metrics increments performed per counter index
	shardCalls  map[[2]int]int64 // (node, shard) -> invocations, for functions that know their shard
	activeSrc   map[[2]int]int   // (node, shard) -> source attempts currently between first call and EOF
	overlaps    int              // times a source attempt started while another attempt of the same shard was active
	attempts    map[[2]int]int   // (node, shard) -> source attempts started
	activeTotal int              // source attempts (tasks with a source) currently running, all shards
	exclActive  int              // of which under an Exclusive pragma
	maxAct      int64            // maximum of activeTotal
	exclViol    int64            // times another task was running while an exclusive one ran
}

var probes sync.Map // run id -> *runProbe

func probeFor(run string) *runProbe {
	if p, ok := probes.Load(run); ok {
		return p.(*runProbe)
	}
	p := &runProbe{entries: map[recKey]*recEntry{}, calls: map[int]*int64{}, incrs: map[int]*int64{}, shardCalls: map[[2]int]int64{}, activeSrc: map[[2]int]int{}, attempts: map[[2]int]int{}}
	act, _ := probes.LoadOrStore(run, p)
	return act.(*runProbe)
}

func (p *runProbe) counter(m map[int]*int64, k int) *int64 {
	p.mu.Lock()
	defer p.mu.Unlock()
	c := m[k]
	if c == nil {
		c = new(int64)
		m[k] = c
	}
	return c
}

func (p *runProbe) entry(k recKey) *recEntry {
	p.mu.Lock()
	defer p.mu.Unlock()
	e := p.entries[k]
	if e == nil {
		e = &recEntry{}
		p.entries[k] = e
	}
	return e
}

// userCall is invoked at the start of every built user function. It counts the call,
// applies the scripted failure and the schedule perturbation.
func userCall(ctx context.Context, sp *Spec, ni int) error {
	p := probeFor(sp.Run)
	n := atomic.AddInt64(p.counter(p.calls, ni), 1)
	if sp.Delay > 0 && hashRow(row{n, ni}, 77)%16 == 0 {
		time.Sleep(time.Duration(sp.Delay) * time.Microsecond)
	}
	if f := sp.Fail; f != nil && f.Node == ni {
		if int(n) == f.AtCall+1 || (f.Persist && int(n) > f.AtCall+1) {
			switch f.Mode {
			case "panic":
				panic(f.Msg)
			case "error":
				return fmt.Errorf("%s", f.Msg)
			case "kinderror":
				// an error of grailbio/base/errors with a kind but no severity, as user code that
				// uses that package for its own errors returns
				return baseerrors.E(baseerrors.NotExist, f.Msg)
			case "temporary":
				return tempError{f.Msg}
			}
		}
	}
	node := &sp.Nodes[ni]
	if node.Ctx && ctx != nil {
		ci := ni % nCounters
		verifCounters[ci].Incr(metrics.ContextScope(ctx), 1)
		atomic.AddInt64(p.counter(p.incrs, ci), 1)
	}
	return nil
}

type tempError struct{ msg string }

func (e tempError) Error() string   { return e.msg }
func (e tempError) Temporary() bool { return true }
func (e tempError) Timeout() bool   { return false }

// ---- building the slice

func pragmasOf(n *PNode) []bigslice.Pragma {
	switch n.Pragma {
	case "procs2":
		return []bigslice.Pragma{bigslice.Procs(2)}
	case "exclusive":
		return []bigslice.Pragma{bigslice.Exclusive}
	case "materialize":
		return []bigslice.Pragma{bigslice.ExperimentalMaterialize}
	}
	return nil
}

func sliceCols(s bigslice.Slice) []reflect.Type {
	ts := make([]reflect.Type, s.NumOut())
	for i := range ts {
		ts[i] = s.Out(i)
	}
	return ts
}

func argsRow(args []reflect.Value) row {
	r := make(row, len(args))
	for i, a := range args {
		r[i] = a.Interface()
	}
	return r
}

func valOf(t reflect.Type, v any) reflect.Value {
	if v == nil {
		return reflect.Zero(t)
	}
	return reflect.ValueOf(v)
}

var tCtxType = reflect.TypeOf((*context.Context)(nil)).Elem()
var tErrType = reflect.TypeOf((*error)(nil)).Elem()

func splitCtx(n *PNode, args []reflect.Value) (context.Context, []reflect.Value) {
	if n.Ctx {
		return args[0].Interface().(context.Context), args[1:]
	}
	return nil, args
}

func fnIn(n *PNode, in []reflect.Type) []reflect.Type {
	if n.Ctx {
		return append([]reflect.Type{tCtxType}, in...)
	}
	return in
}

// userPanic converts a scripted error of a function that cannot return errors into a panic.
func must(err error) {
	if err != nil {
		panic(err.Error())
	}
}

// BuildSlice builds the bigslice.Slice of a spec. args are the Func's slice arguments.
func BuildSlice(sp Spec, args []bigslice.Slice) bigslice.Slice {
	spec := &sp
	built := make([]bigslice.Slice, len(sp.Nodes))
	for ni := range sp.Nodes {
		ni := ni
		n := &sp.Nodes[ni]
		var in bigslice.Slice
		if len(n.In) > 0 {
			in = built[n.In[0]]
		}
		outTypes := make([]reflect.Type, len(n.Out))
		for i, k := range n.Out {
			outTypes[i] = kindType(k)
		}
		switch n.Op {
		case "arg":
			built[ni] = args[n.Arg]
		case "const", "keys":
			rows := sourceRows(n, 0)
			cols := make([]interface{}, len(n.Out))
			for j := range n.Out {
				v := reflect.MakeSlice(reflect.SliceOf(outTypes[j]), len(rows), len(rows))
				for i := range rows {
					v.Index(i).Set(valOf(outTypes[j], rows[i][j]))
				}
				cols[j] = v.Interface()
			}
			built[ni] = bigslice.Const(n.Shards, cols...)
		case "readerfunc":
			inT := []reflect.Type{kindType("int"), reflect.TypeOf((*int)(nil))}
			for _, t := range outTypes {
				inT = append(inT, reflect.SliceOf(t))
			}
			ft := reflect.FuncOf(inT, []reflect.Type{kindType("int"), tErrType}, false)
			fn := reflect.MakeFunc(ft, func(a []reflect.Value) []reflect.Value {
				shard := int(a[0].Int())
				state := a[1].Interface().(*int) // rows delivered so far in the low bits, call count in the high bits
				ret := func(k int, err error) []reflect.Value {
					ev := reflect.Zero(tErrType)
					if err != nil {
						ev = reflect.ValueOf(&err).Elem()
					}
					return []reflect.Value{reflect.ValueOf(k), ev}
				}
				pr := probeFor(spec.Run)
				key := [2]int{ni, shard}
				pr.mu.Lock()
				pr.shardCalls[key]++
				if *state == 0 {
					// first call of an attempt (a task execution) of this shard
					pr.attempts[key]++
					pr.activeSrc[key]++
					if pr.activeSrc[key] > 1 {
						pr.overlaps++
					}
					pr.activeTotal++
					if n.Pragma == "exclusive" {
						pr.exclActive++
					}
					if int64(pr.activeTotal) > pr.maxAct {
						atomic.StoreInt64(&pr.maxAct, int64(pr.activeTotal))
					}
				}
				if pr.exclActive > 0 && pr.activeTotal > 1 {
					atomic.AddInt64(&pr.exclViol, 1)
				}
				pr.mu.Unlock()
				if spec.Delay > 0 {
					time.Sleep(time.Duration(spec.Delay) * time.Microsecond)
				}
				endAttempt := func() {
					pr.mu.Lock()
					pr.activeSrc[key]--
					pr.activeTotal--
					if n.Pragma == "exclusive" {
						pr.exclActive--
					}
					pr.mu.Unlock()
				}
				if err := userCall(nil, spec, ni); err != nil {
					endAttempt()
					return ret(0, err)
				}
				rows := sourceRows(n, shard)
				done := *state & 0xffffff
				call := *state >> 24
				chunks := n.Chunks
				if len(chunks) == 0 {
					chunks = []int{1 << 20}
				}
				ch := chunks[call%len(chunks)]
				withEOF := ch < 0
				if ch < 0 {
					ch = -ch
				}
				k := ch
				if k > len(rows)-done {
					k = len(rows) - done
				}
				if l := a[2].Len(); k > l {
					k = l
				}
				for i := 0; i < k; i++ {
					for j := range outTypes {
						a[2+j].Index(i).Set(valOf(outTypes[j], rows[done+i][j]))
					}
				}
				done += k
				*state = done | (call+1)<<24
				if done == len(rows) && (withEOF || (k == 0 && ch > 0)) {
					endAttempt()
					return ret(k, sliceio.EOF)
				}
				return ret(k, nil)
			})
			built[ni] = bigslice.ReaderFunc(n.Shards, fn.Interface(), pragmasOf(n)...)
		case "scanreader":
			lines := scanLines(n)
			built[ni] = bigslice.ScanReader(n.Shards, func() (io.ReadCloser, error) {
				if err := userCall(nil, spec, ni); err != nil {
					return nil, err
				}
				var b strings.Builder
				for _, l := range lines {
					b.WriteString(l)
					b.WriteByte('\n')
				}
				return io.NopCloser(strings.NewReader(b.String())), nil
			})
		case "map":
			ft := reflect.FuncOf(fnIn(n, sliceCols(in)), outTypes, false)
			fn := reflect.MakeFunc(ft, func(a []reflect.Value) []reflect.Value {
				ctx, a := splitCtx(n, a)
				must(userCall(ctx, spec, ni))
				out := evalMap(n, argsRow(a), 0)
				rv := make([]reflect.Value, len(out))
				for j := range out {
					rv[j] = valOf(outTypes[j], out[j])
				}
				return rv
			})
			built[ni] = bigslice.Map(in, fn.Interface(), pragmasOf(n)...)
		case "filter":
			ft := reflect.FuncOf(fnIn(n, sliceCols(in)), []reflect.Type{kindType("bool")}, false)
			fn := reflect.MakeFunc(ft, func(a []reflect.Value) []reflect.Value {
				ctx, a := splitCtx(n, a)
				must(userCall(ctx, spec, ni))
				return []reflect.Value{reflect.ValueOf(keepRow(n, argsRow(a)))}
			})
			built[ni] = bigslice.Filter(in, fn.Interface(), pragmasOf(n)...)
		case "flatmap":
			outS := make([]reflect.Type, len(outTypes))
			for i, t := range outTypes {
				outS[i] = reflect.SliceOf(t)
			}
			ft := reflect.FuncOf(fnIn(n, sliceCols(in)), outS, false)
			fn := reflect.MakeFunc(ft, func(a []reflect.Value) []reflect.Value {
				ctx, a := splitCtx(n, a)
				must(userCall(ctx, spec, ni))
				r := argsRow(a)
				k := fanOut(n, r)
				rv := make([]reflect.Value, len(outS))
				for j := range rv {
					rv[j] = reflect.MakeSlice(outS[j], k, k)
				}
				for i := 0; i < k; i++ {
					o := evalMap(n, r, uint64(i)+1)
					for j := range o {
						rv[j].Index(i).Set(valOf(outTypes[j], o[j]))
					}
				}
				return rv
			})
			built[ni] = bigslice.Flatmap(in, fn.Interface(), pragmasOf(n)...)
		case "fold":
			cols := sliceCols(in)
			inT := append([]reflect.Type{kindType("int64")}, cols[1:]...)
			ft := reflect.FuncOf(inT, []reflect.Type{kindType("int64")}, false)
			fn := reflect.MakeFunc(ft, func(a []reflect.Value) []reflect.Value {
				must(userCall(nil, spec, ni))
				acc := a[0].Int()
				v := foldVal(argsRow(a[1:]), n.Salt)
				return []reflect.Value{reflect.ValueOf(foldStep("sum", acc, v, false))}
			})
			built[ni] = bigslice.Fold(in, fn.Interface())
		case "head":
			built[ni] = bigslice.Head(in, n.P)
		case "reduce":
			fn := func(a, b int64) int64 {
				must(userCall(nil, spec, ni))
				return foldStep(n.Fold, a, b, false)
			}
			built[ni] = bigslice.Reduce(in, fn)
		case "cogroup":
			ins := make([]bigslice.Slice, len(n.In))
			for i, x := range n.In {
				ins[i] = built[x]
			}
			built[ni] = bigslice.Cogroup(ins...)
		case "reshuffle":
			built[ni] = bigslice.Reshuffle(in)
		case "reshard":
			built[ni] = bigslice.Reshard(in, n.Shards)
		case "repartition":
			inT := append([]reflect.Type{kindType("int")}, sliceCols(in)...)
			ft := reflect.FuncOf(inT, []reflect.Type{kindType("int")}, false)
			fn := reflect.MakeFunc(ft, func(a []reflect.Value) []reflect.Value {
				must(userCall(nil, spec, ni))
				ns := int(a[0].Int())
				if f := spec.Fail; f != nil && f.Node == ni && f.Mode == "badpartition" {
					c := atomic.LoadInt64(probeFor(spec.Run).counter(probeFor(spec.Run).calls, ni))
					if int(c) == f.AtCall+1 || (f.Persist && int(c) > f.AtCall+1) {
						return []reflect.Value{reflect.ValueOf(ns + 3)}
					}
				}
				return []reflect.Value{reflect.ValueOf(partitionOf(n, argsRow(a[1:]), ns))}
			})
			built[ni] = bigslice.Repartition(in, fn.Interface())
		case "prefixed":
			built[ni] = bigslice.Prefixed(in, n.P)
		case "scan":
			typ := in
			built[ni] = bigslice.Scan(in, func(shard int, sc *sliceio.Scanner) error {
				pr := probeFor(spec.Run)
				e := pr.entry(recKey{spec.Run, ni, shard})
				att := &recAttempt{}
				pr.mu.Lock()
				e.Attempts = append(e.Attempts, att)
				pr.mu.Unlock()
				ptrs := make([]interface{}, typ.NumOut())
				for i := range ptrs {
					ptrs[i] = reflect.New(typ.Out(i)).Interface()
				}
				for sc.Scan(context.Background(), ptrs...) {
					if err := userCall(nil, spec, ni); err != nil {
						return err
					}
					r := make(row, len(ptrs))
					for i := range ptrs {
						r[i] = cloneProgVal(reflect.ValueOf(ptrs[i]).Elem().Interface())
					}
					pr.mu.Lock()
					att.Rows = append(att.Rows, r)
					pr.mu.Unlock()
				}
				if err := sc.Err(); err != nil {
					return err
				}
				pr.mu.Lock()
				att.EOFs++
				pr.mu.Unlock()
				return nil
			})
		case "writerfunc":
			cols := sliceCols(in)
			inT := []reflect.Type{kindType("int"), reflect.TypeOf((*int)(nil)), tErrType}
			for _, t := range cols {
				inT = append(inT, reflect.SliceOf(t))
			}
			ft := reflect.FuncOf(inT, []reflect.Type{tErrType}, false)
			fn := reflect.MakeFunc(ft, func(a []reflect.Value) []reflect.Value {
				shard := int(a[0].Int())
				state := a[1].Interface().(*int) // 1 + index of this attempt in the entry
				pr := probeFor(spec.Run)
				e := pr.entry(recKey{spec.Run, ni, shard})
				pr.mu.Lock()
				if *state == 0 {
					e.Attempts = append(e.Attempts, &recAttempt{})
					*state = len(e.Attempts)
				}
				att := e.Attempts[*state-1]
				k := a[3].Len()
				for i := 0; i < k; i++ {
					r := make(row, len(cols))
					for j := range cols {
						r[j] = cloneProgVal(a[3+j].Index(i).Interface())
					}
					att.Rows = append(att.Rows, r)
				}
				if !a[2].IsNil() && a[2].Interface().(error) == sliceio.EOF {
					att.EOFs++
				}
				pr.mu.Unlock()
				ev := reflect.Zero(tErrType)
				if err := userCall(nil, spec, ni); err != nil {
					ev = reflect.ValueOf(&err).Elem()
				}
				return []reflect.Value{ev}
			})
			built[ni] = bigslice.WriterFunc(in, fn.Interface())
		case "cache":
			built[ni] = bigslice.Cache(context.Background(), in, n.Path)
		case "cachepartial":
			built[ni] = bigslice.CachePartial(context.Background(), in, n.Path)
		case "readcache":
			built[ni] = bigslice.ReadCache(context.Background(), ptype{outTypes, 1}, n.Shards, n.Path)
		default:
			panic("BuildSlice: unknown op " + n.Op)
		}
	}
	return built[len(built)-1]
}

func cloneProgVal(v any) any {
	switch x := v.(type) {
	case []byte:
		if x == nil {
			return []byte(nil)
		}
		return append([]byte{}, x...)
	}
	rv := reflect.ValueOf(v)
	if rv.IsValid() && rv.Kind() == reflect.Slice && !rv.IsNil() {
		c := reflect.MakeSlice(rv.Type(), rv.Len(), rv.Len())
		reflect.Copy(c, rv)
		return c.Interface()
	}
	return cloneVal(v)
}

// ProgFunc is the one registered Func through which every generated program runs.
var ProgFunc = bigslice.Func(func(sp Spec, a, b bigslice.Slice) bigslice.Slice {
	return BuildSlice(sp, []bigslice.Slice{a, b})
})

// ProgFuncExclusive is ProgFunc marked exclusive.
var ProgFuncExclusive = ProgFunc.Exclusive()

var pow7 = []uint64{1, 7, 49, 343}

var floatSpecials = []float64{0, math.Copysign(0, -1), 1, -1, math.Inf(1), math.Inf(-1), math.SmallestNonzeroFloat64, -math.SmallestNonzeroFloat64, math.MaxFloat64, 0.1, 1e-310}
var stringSpecials = []string{"", "a", "b", "ab", "ba", "a\x00", "\x00a", "aa", "Ünï", "\xff\xfe", strings.Repeat("k", 300)}

// keyFromBits maps a number to a key value: small numbers select boundary values, the
// rest are spread over the type's range.
func keyFromBits(kind string, b uint64) any {
	mix := b * 0x9E3779B97F4A7C15
	switch kind {
	case "uint8":
		return uint8(b)
	case "int8":
		return int8(b)
	case "uint16":
		return uint16(b)
	case "int16":
		return int16(b)
	case "bool":
		return b&1 == 1
	case "uint32":
		return uint32(pick64(b, mix))
	case "int32":
		return int32(pick64(b, mix))
	case "uint64":
		return pick64(b, mix)
	case "int64":
		return int64(pick64(b, mix))
	case "int":
		return int(pick64(b, mix))
	case "uint":
		return uint(pick64(b, mix))
	case "float64":
		if b < uint64(len(floatSpecials)) {
			return floatSpecials[b]
		}
		f := math.Float64frombits(mix)
		if f != f {
			return float64(b)
		}
		return f
	case "float32":
		if b < uint64(len(floatSpecials)) {
			return float32(floatSpecials[b])
		}
		f := math.Float32frombits(uint32(mix >> 16))
		if f != f {
			return float32(b)
		}
		return f
	case "string":
		if b < uint64(len(stringSpecials)) {
			return stringSpecials[b]
		}
		return fmt.Sprintf("k%d", b)
	case "bytes":
		if b < uint64(len(stringSpecials)) {
			return []byte(stringSpecials[b])
		}
		return []byte(fmt.Sprintf("k%d", b))
	}
	panic("keyFromBits: " + kind)
}

var intBoundaries = []uint64{0, 1, 2, 127, 128, 255, 256, 32767, 32768, 65535, 65536, 1<<31 - 1, 1 << 31, 1<<32 - 1, 1 << 32, 1<<63 - 1, 1 << 63, ^uint64(0), ^uint64(0) - 1}

func pick64(b, mix uint64) uint64 {
	if b < uint64(len(intBoundaries)) {
		return intBoundaries[b]
	}
	return mix
}
