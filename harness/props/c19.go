package props

import (
	"fmt"
	"sync"
	"time"

	"github.com/grailbio/bigslice"
	"verifharness/internal/vf"
)

// C19 — concurrent runs in a session are race-free and each gets its correct result.
// Always run under the race detector (the orchestrator parses the reports).

func init() { Registry["C19"] = runC19 }

type c19case struct {
	Conf          sessConf   `json:"conf"`
	Base          Spec       `json:"base"`
	Derived       []Spec     `json:"derived"`
	Scans         int        `json:"scans"`
	DiscardBefore bool       `json:"discardbefore"` // discard the shared result before the concurrent phase: every run must recompute it
	DiscardDuring bool       `json:"discardduring"`
	Delay         int        `json:"delay_us"`
	RPCDelays     []ipAction `json:"rpcdelays,omitempty"`
	Repeat        int        `json:"repeat"`
	// FailRun: 1 + the index of a derived run that fails by script (a branch of its own that does
	// not depend on the shared result fails at once); it is expected to return that error, and
	// the other runs, which share the recomputation of the result with it, must be unaffected
	FailRun int `json:"failrun,omitempty"`
}

func runC19case(t *vf.T, c c19case) {
	ls := startSession(c.Conf, c.RPCDelays...)
	defer ls.Close()
	ex := c.Conf.Kind
	run := fmt.Sprintf("c19-%d-%d", t.Index(), c.Repeat)
	base := c.Base
	base.Run = run + "-base"
	base.Delay = c.Delay
	defer probes.Delete(base.Run)
	want0, _, err := evalSpec(&base, nil)
	if err != nil || want0.Weak || len(want0.Kinds) == 0 {
		return
	}
	b := runSpec(ls, base, [2]bigslice.Slice{}, true, 120*time.Second)
	if b.TimedOut || b.RunErr != nil || b.ScanErr != nil || b.Panic != nil {
		if b.TimedOut {
			t.Inconclusive("watchdog in the base run")
		} else {
			t.Violate("base-run-failed exec="+ex, fmt.Sprintf("%v %v %v", b.RunErr, b.ScanErr, b.Panic))
		}
		return
	}
	if d := compareResult(b.Rows, want0); d != "" {
		t.Violate("base-rows exec="+ex, d)
		return
	}
	if c.DiscardBefore {
		b.Res.Discard(bgctx)
	}
	discarded := c.DiscardBefore || c.DiscardDuring
	var wg sync.WaitGroup
	var mu sync.Mutex
	var firstStart, lastEnd, maxStart, minEnd time.Time
	note := func(s, e time.Time) {
		mu.Lock()
		if firstStart.IsZero() || s.Before(firstStart) {
			firstStart = s
		}
		if s.After(maxStart) {
			maxStart = s
		}
		if minEnd.IsZero() || e.Before(minEnd) {
			minEnd = e
		}
		if e.After(lastEnd) {
			lastEnd = e
		}
		mu.Unlock()
	}
	timedOut, stalled := false, false
	for i, sp := range c.Derived {
		i, sp := i, sp
		sp.Run = fmt.Sprintf("%s-d%d", run, i)
		sp.Delay = c.Delay
		want, _, err := evalSpec(&sp, []*rel{want0, want0})
		if err != nil {
			continue
		}
		wg.Add(1)
		go func() {
			defer wg.Done()
			defer probes.Delete(sp.Run)
			s := time.Now()
			o := runSpec(ls, sp, [2]bigslice.Slice{b.Res, b.Res}, true, 180*time.Second)
			note(s, time.Now())
			mu.Lock()
			defer mu.Unlock()
			switch {
			case o.TimedOut:
				timedOut = true
				stalled = stalled || o.Stalled
			case o.Panic != nil:
				t.Violate("concurrent-run-panic exec="+ex, fmt.Sprintf("%v at %s", o.Panic, o.PanicAt))
			case o.RunErr == nil && o.ScanErr != nil && discarded:
				// The result of a derived program can consist of the shared result's own tasks (a Func
				// that returns its argument): scanning it after the discard may report an error.
				t.Count("scans_failed_after_discard", 1)
			case i == c.FailRun-1 && o.RunErr != nil:
				t.Count("runs_failing_as_scripted", 1)
			case o.RunErr != nil || o.ScanErr != nil:
				t.Violate(fmt.Sprintf("concurrent-run-failed discard=%v exec=%s", discarded, ex), fmt.Sprintf("run %d of %d concurrent runs over a shared result failed: run: %v scan: %v | %s", i, len(c.Derived), o.RunErr, o.ScanErr, specString(&sp)))
			default:
				if d := compareResult(o.Rows, want); d != "" {
					t.Violate(fmt.Sprintf("concurrent-run-rows-differ discard=%v exec=%s", discarded, ex), fmt.Sprintf("run %d of %d concurrent runs: %s | %s", i, len(c.Derived), d, specString(&sp)))
					return
				}
				t.Count("concurrent_runs_ok", 1)
			}
		}()
	}
	for i := 0; i < c.Scans; i++ {
		wg.Add(1)
		go func() {
			defer wg.Done()
			done := make(chan struct{})
			var rows []row
			var err error
			go func() {
				defer close(done)
				defer func() {
					if e := recover(); e != nil {
						err = fmt.Errorf("panic: %v", e)
					}
				}()
				rows, err = scanRows(bgctx, b.Res)
			}()
			select {
			case <-done:
			case <-time.After(180 * time.Second):
				mu.Lock()
				timedOut = true
				mu.Unlock()
				return
			}
			mu.Lock()
			defer mu.Unlock()
			if err != nil {
				if !discarded {
					t.Violate("concurrent-scan-failed exec="+ex, "scan of an intact shared result failed alongside concurrent runs: "+err.Error())
				}
				return
			}
			if d := compareResult(rows, want0); d != "" {
				t.Violate(fmt.Sprintf("concurrent-scan-rows-differ discard=%v exec=%s", discarded, ex), d)
				return
			}
			t.Count("concurrent_scans_ok", 1)
		}()
	}
	if c.DiscardDuring {
		wg.Add(1)
		go func() {
			defer wg.Done()
			time.Sleep(time.Duration(c.Delay*3) * time.Microsecond)
			b.Res.Discard(bgctx)
		}()
	}
	wg.Wait()
	if timedOut {
		if stalled {
			t.Violate("concurrent-run-hang exec="+ex, "a concurrent run did not return within 180 s and no RPC started or finished during the last 120 s")
		} else {
			t.Inconclusive("watchdog: a concurrent operation did not return within 180 s")
		}
		return
	}
	// shared tasks must be executed by one run at a time: attempts of the same source shard
	// of the base program must not overlap
	pr := probeFor(base.Run)
	pr.mu.Lock()
	overlaps, attempts := pr.overlaps, 0
	for _, n := range pr.attempts {
		attempts += n
	}
	pr.mu.Unlock()
	if overlaps > 0 {
		t.Violate(fmt.Sprintf("shared-task-run-twice-at-once discard=%v exec=%s", discarded, ex), fmt.Sprintf("%d times an execution of a shared task (a source shard of the base program) started while another execution of the same task was still running", overlaps))
		return
	}
	t.Count("shared_source_attempts", int64(attempts))
	t.Count("scenarios", 1)
	overlap := !maxStart.IsZero() && maxStart.Before(minEnd)
	if overlap {
		t.Count("scenarios_with_all_runs_overlapping", 1)
	}
	if len(c.Derived) >= 2 && !firstStart.IsZero() {
		t.Nontrivial(fmt.Sprintf("%d", t.Index()*100+c.Repeat))
	}
	t.Seen("schedules", fmt.Sprintf("gomaxprocs=%s delay=%d rpcdelays=%d", gomaxprocs(), c.Delay, len(c.RPCDelays)))
}

func genC19(rnd *vf.Rand, conf sessConf) c19case {
	c := c19case{Conf: conf, Scans: rnd.Intn(3), DiscardBefore: rnd.Chance(0.5), DiscardDuring: rnd.Chance(0.2), Delay: rnd.Pick(0, 50, 300, 2000)}
	baseOpts := genOpts{MaxOps: 3, Sources: []string{"readerfunc"}, Ops: []string{"map", "filter", "flatmap", "mapkv", "reshuffle", "prefixed", "fold"}, NoWeakHead: true, NoScan: true, MaxRows: 150}
	var want0 *rel
	for tries := 0; tries < 30; tries++ {
		c.Base = genSpec(rnd.Fork(), baseOpts)
		if w, _, err := evalSpec(&c.Base, nil); err == nil && !w.Weak && len(w.Kinds) > 0 {
			want0 = w
			break
		}
	}
	n := 2 + rnd.Intn(5)
	for i := 0; i < n; i++ {
		o := genOpts{MaxOps: 3, Sources: []string{"arg"}, ArgRels: []*rel{want0, want0}, NoWeakHead: true, NoScan: true}
		for tries := 0; tries < 10; tries++ {
			sp := genSpec(rnd.Fork(), o)
			if _, _, err := evalSpec(&sp, []*rel{want0, want0}); err == nil && len(sp.Nodes) >= 2 {
				c.Derived = append(c.Derived, sp)
				break
			}
		}
	}
	if conf.Kind == "bigmachine" {
		for _, m := range []string{"Worker.Run", "Worker.Compile", "Worker.Read", "Worker.Stat"} {
			if rnd.Chance(0.4) {
				c.RPCDelays = append(c.RPCDelays, ipAction{Method: m, Ordinal: rnd.Intn(6), When: []string{"before", "after"}[rnd.Intn(2)], What: "delay", DelayMs: rnd.Pick(1, 5, 20)})
			}
		}
	}
	return c
}

func runC19(r *vf.Runner) {
	rnd := r.Rand("c19")
	nl, nb, rep := 16, 6, 5
	if !r.Quick() {
		nl, nb, rep = 60, 20, 40
	}
	// one of the concurrent runs fails early while all of them wait for the recomputation of the
	// shared (discarded) result, which one of them performs
	for _, conf := range []sessConf{localP4, {Kind: "local", P: 1}, bm2} {
		for k := 0; k < rep; k++ {
			base := Spec{Nodes: []PNode{{Op: "readerfunc", Shards: 3, Rows: 60, Out: []string{"int", "int64"}, Salt: 4, Mod: 9, Chunks: []int{20}}, {Op: "map", In: []int{0}, Out: []string{"int", "int64"}, Src: []int{0, 1}, Salt: 1}}}
			failing := Spec{Nodes: []PNode{{Op: "arg", Arg: 0}, {Op: "const", Shards: 1, Rows: 5, Out: []string{"int", "int64"}, Salt: 2, Mod: 9},
				{Op: "map", In: []int{1}, Out: []string{"int", "int64"}, Src: []int{0, 1}, Salt: 3}, {Op: "cogroup", In: []int{0, 2}}},
				Fail: &FailSpec{Node: 2, Mode: "panic", AtCall: 0, Persist: true, Msg: "verif-c19-scripted-failure"}}
			ok1 := Spec{Nodes: []PNode{{Op: "arg", Arg: 0}, {Op: "map", In: []int{0}, Out: []string{"int", "int64"}, Src: []int{0, 1}, Salt: 5}}}
			ok2 := Spec{Nodes: []PNode{{Op: "arg", Arg: 0}, {Op: "reduce", In: []int{0}, Fold: "sum"}}}
			c := c19case{Conf: conf, Base: base, Derived: []Spec{ok1, failing, ok2, ok1}, FailRun: 2, DiscardBefore: true, Delay: []int{300, 2000, 8000}[k%3], Repeat: k}
			r.Case(c, func(t *vf.T) { runC19case(t, c) })
		}
	}
	// wide: many concurrent runs recompute a discarded result of many shards together, without
	// any delay in the user functions: every evaluator keeps meeting tasks that another run
	// started or completed a moment ago
	for _, conf := range []sessConf{localP4, {Kind: "local", P: 16}} {
		for k := 0; k < 2*rep; k++ {
			base := Spec{Nodes: []PNode{{Op: "readerfunc", Shards: 64, Rows: 128, Out: []string{"int", "int64"}, Salt: 4, Mod: 9, Chunks: []int{20}}, {Op: "map", In: []int{0}, Out: []string{"int", "int64"}, Src: []int{0, 1}, Salt: 1}}}
			ok1 := Spec{Nodes: []PNode{{Op: "arg", Arg: 0}, {Op: "map", In: []int{0}, Out: []string{"int", "int64"}, Src: []int{0, 1}, Salt: 5}}}
			c := c19case{Conf: conf, Base: base, Derived: []Spec{ok1, ok1, ok1, ok1, ok1, ok1, ok1, ok1}, DiscardBefore: true, Repeat: k}
			r.Case(c, func(t *vf.T) {
				runC19case(t, c)
				t.Count("wide_shared_recomputations", 1)
			})
		}
	}
	for i := 0; i < nl+nb; i++ {
		conf := localP4
		if i >= nl {
			conf = bm2
		}
		f := rnd.Fork()
		var c c19case
		gen := false
		for k := 0; k < rep; k++ {
			k := k
			r.CaseLazy(func() any {
				if !gen {
					c = genC19(f, conf)
					gen = true
				}
				cc := c
				cc.Repeat = k
				return cc
			}, func(t *vf.T, d any) { runC19case(t, d.(c19case)) })
		}
	}
}
