package props

import (
	"bytes"
	"context"
	"fmt"
	"io"
	"runtime"
	"strings"

	"github.com/grailbio/bigslice/sliceio"
	"verifharness/internal/vf"
)

// C07 — row streams decode to the rows written; corruption is detected.

func init() { Registry["C07"] = runC07 }

type c07case struct {
	Kind    string `json:"kind"` // fidelity | flips | truncs | burst
	Schema  int    `json:"schema"`
	Batches []int  `json:"batches"`
	Dest    []int  `json:"dest"`
	Data    uint64 `json:"dataseed"`
	// for damage cases: [From,To) byte positions covered by this case
	From int `json:"from,omitempty"`
	To   int `json:"to,omitempty"`
	N    int `json:"n,omitempty"`
}

// offsetWriter records the offset of every Write (gob issues one Write per message).
type offsetWriter struct {
	buf  bytes.Buffer
	offs []int
}

func (w *offsetWriter) Write(p []byte) (int, error) {
	w.offs = append(w.offs, w.buf.Len())
	return w.buf.Write(p)
}

type c07stream struct {
	ts       []*colType
	rows     []row
	bytes    []byte
	msgOffs  []int // start offset of every gob message
	batchEnd []int // byte offset at which batch i ends
	batchRow []int // number of rows written up to and including batch i
}

func c07encode(c c07case) (*c07stream, error) {
	sc := frameSchemas[c.Schema]
	ts := sc.types()
	rnd := vf.NewRand(c.Data)
	st := &c07stream{ts: ts}
	var w offsetWriter
	enc := sliceio.NewEncodingWriter(&w)
	for _, n := range c.Batches {
		rows := make([]row, n)
		for i := range rows {
			rows[i] = genRow(ts, rnd, rnd.Chance(0.3))
		}
		// write the batch from a view at a non-zero offset of a larger frame
		pad := append([]row{genRow(ts, rnd, false)}, rows...)
		pad = append(pad, genRow(ts, rnd, false))
		f, _ := frameOf(ts, pad, 0)
		if err := enc.Write(context.Background(), f.Slice(1, 1+n)); err != nil {
			return nil, err
		}
		st.rows = append(st.rows, rows...)
		st.batchEnd = append(st.batchEnd, w.buf.Len())
		st.batchRow = append(st.batchRow, len(st.rows))
	}
	st.bytes = append([]byte{}, w.buf.Bytes()...)
	st.msgOffs = w.offs
	return st, nil
}

// batchOf returns the index of the batch containing byte position p.
func (st *c07stream) batchOf(p int) int {
	for i, e := range st.batchEnd {
		if p < e {
			return i
		}
	}
	return len(st.batchEnd) - 1
}

// role says whether byte p is the first byte of a gob message (its length prefix) or payload.
func (st *c07stream) role(p int) string {
	for _, o := range st.msgOffs {
		if o == p {
			return "gob-length-byte"
		}
	}
	return "payload"
}

type c07outcome struct {
	res     driveResult
	panicAt string
	panicV  any
	alloc   int64
}

func c07decode(st *c07stream, data []byte, dest []int, rnd *vf.Rand) (out c07outcome) {
	defer func() {
		if e := recover(); e != nil {
			out.panicV = e
			out.panicAt = vf.PanicSite(stackNow())
		}
	}()
	var m0, m1 runtime.MemStats
	runtime.ReadMemStats(&m0)
	r := sliceio.NewDecodingReader(bytes.NewReader(data))
	out.res = driveReader(st.ts, r, dest, rnd, len(st.rows)*2+20)
	runtime.ReadMemStats(&m1)
	out.alloc = int64(m1.TotalAlloc - m0.TotalAlloc)
	return
}

// judgeDamage applies the C07 oracle to a damaged stream. at is the first damaged byte.
func judgeDamage(t *vf.T, st *c07stream, kind string, at int, o c07outcome, midBatch bool) {
	role := st.role(at)
	t.Max("max_alloc_bytes_one_damaged_decode", o.alloc)
	if o.alloc > 1<<28 {
		t.Count("damaged_decodes_allocating_over_256MiB", 1)
	}
	sig := func(outcome string) string { return fmt.Sprintf("%s %s -> %s", kind, role, outcome) }
	if o.panicV != nil {
		t.Violate(sig("panic:"+o.panicAt), fmt.Sprintf("%s at byte %d of %d: decoder panicked: %v", kind, at, len(st.bytes), o.panicV))
		return
	}
	res := o.res
	if res.bad != "" {
		t.Violate(sig(res.bad), fmt.Sprintf("%s at byte %d: %s", kind, at, res.what))
		return
	}
	b := st.batchOf(at)
	// rows delivered must be a correct prefix
	if len(res.rows) > len(st.rows) {
		t.Violate(sig("extra-rows"), fmt.Sprintf("%s at byte %d: %d rows delivered, %d written", kind, at, len(res.rows), len(st.rows)))
		return
	}
	for i := range res.rows {
		if !rowEq(res.rows[i], st.rows[i], false) {
			t.Violate(sig("wrong-row"), fmt.Sprintf("%s at byte %d (batch %d): delivered row %d is %s, written %s", kind, at, b, i, rowStr(res.rows[i]), rowStr(st.rows[i])))
			return
		}
	}
	if midBatch {
		if res.err == nil {
			t.Violate(sig("clean-EOF"), fmt.Sprintf("%s at byte %d (inside batch %d of %d, stream %d bytes): reader reported a clean end after %d of %d rows", kind, at, b, len(st.batchEnd), len(st.bytes), len(res.rows), len(st.rows)))
			return
		}
		if len(res.rows) > st.batchRow[b] {
			t.Violate(sig("rows-after-damage"), fmt.Sprintf("%s at byte %d (batch %d): %d rows delivered before the error, but only %d precede the end of the damaged batch", kind, at, b, len(res.rows), st.batchRow[b]))
			return
		}
		t.Count("damage_detected_as_error", 1)
		t.Seen("error_classes", errClass(res.err))
	} else {
		// truncation exactly between batches: a clean end with the prefix is the only
		// acceptable non-error outcome
		want := 0
		if b0 := st.batchOf(at - 1); at > 0 {
			want = st.batchRow[b0]
		}
		if res.err == nil && len(res.rows) != want {
			t.Violate(sig("boundary-rows"), fmt.Sprintf("truncation at batch boundary %d: %d rows, want %d", at, len(res.rows), want))
		}
		t.Count("boundary_truncations", 1)
	}
	t.Count("rows_delivered_before_error", int64(len(res.rows)))
}

func errClass(err error) string {
	s := err.Error()
	for _, k := range []string{"checksum", "unexpected EOF", "gob:", "EOF", "codec", "invalid", "overflow", "too big", "out of range"} {
		if strings.Contains(s, k) {
			return k
		}
	}
	if len(s) > 40 {
		s = s[:40]
	}
	return s
}

func runC07case(t *vf.T, c c07case) {
	st, err := c07encode(c)
	if err != nil {
		t.Violate("encode-error schema="+strings.Join(frameSchemas[c.Schema].Cols, ","), "encoder failed: "+err.Error())
		return
	}
	rnd := vf.NewRand(c.Data ^ 0x5eed)
	switch c.Kind {
	case "fidelity":
		o := c07decode(st, st.bytes, c.Dest, rnd)
		sig := "fidelity schema=" + strings.Join(frameSchemas[c.Schema].Cols, ",")
		switch {
		case o.panicV != nil:
			t.Violate(sig+" panic:"+o.panicAt, fmt.Sprintf("decoder panicked on an undamaged stream: %v", o.panicV))
		case o.res.bad != "":
			t.Violate(sig+" "+o.res.bad, o.res.what)
		case o.res.err != nil:
			t.Violate(sig+" error", "undamaged stream: "+o.res.err.Error())
		default:
			if d := rowsDiff(o.res.rows, st.rows, false); d != "" {
				t.Violate(sig+" rows-differ", d)
			}
		}
		split := false
		for i, b := range c.Batches {
			if b != c.Dest[i%len(c.Dest)] {
				split = true
			}
		}
		if len(c.Batches) >= 2 || split {
			t.Nontrivial("")
		}
		t.Count("rows_roundtripped", int64(len(st.rows)))
		t.Count("streams_roundtripped", 1)
	case "flips":
		for p := c.From; p < c.To && p < len(st.bytes); p++ {
			for bit := 0; bit < 8; bit++ {
				d := append([]byte{}, st.bytes...)
				d[p] ^= 1 << uint(bit)
				judgeDamage(t, st, "flip", p, c07decode(st, d, c.Dest, rnd), true)
				t.Count("bit_flips", 1)
			}
		}
		t.Nontrivial("")
	case "truncs":
		for p := c.From; p < c.To && p < len(st.bytes); p++ {
			mid := true
			if p == 0 {
				mid = false
			}
			for _, e := range st.batchEnd {
				if p == e {
					mid = false
				}
			}
			judgeDamage(t, st, "trunc", p, c07decode(st, st.bytes[:p], c.Dest, rnd), mid)
			t.Count("truncations", 1)
		}
		t.Nontrivial("")
	case "bytevals":
		// every value of every byte: all single-byte substitutions (a superset of the single-bit flips)
		for p := c.From; p < c.To && p < len(st.bytes); p++ {
			for x := 0; x < 256; x++ {
				if byte(x) == st.bytes[p] {
					continue
				}
				d := append([]byte{}, st.bytes...)
				d[p] = byte(x)
				judgeDamage(t, st, "subst", p, c07decode(st, d, c.Dest, rnd), true)
				t.Count("byte_substitutions", 1)
			}
		}
		t.Nontrivial("")
	case "lenbytes":
		// every value of the first byte of every gob message (its length prefix): a longer length makes
		// gob take the bytes that follow -- up to whole later batches -- as part of that message
		for _, p := range st.msgOffs {
			if p < c.From || p >= c.To {
				continue
			}
			for x := 0; x < 256; x++ {
				if byte(x) == st.bytes[p] {
					continue
				}
				d := append([]byte{}, st.bytes...)
				d[p] = byte(x)
				judgeDamage(t, st, "lenbyte", p, c07decode(st, d, c.Dest, rnd), true)
				t.Count("length_byte_values", 1)
			}
		}
		t.Nontrivial("")
	case "burst":
		br := vf.NewRand(c.Data ^ 0xb0057)
		for i := 0; i < c.N; i++ {
			d := append([]byte{}, st.bytes...)
			p := br.Intn(len(d))
			l := 1 + br.Intn(6)
			changed := false
			for j := p; j < p+l && j < len(d); j++ {
				x := byte(br.Uint64())
				if x != d[j] {
					changed = true
				}
				d[j] = x
			}
			if !changed {
				continue
			}
			first := p
			for first < len(d) && d[first] == st.bytes[first] {
				first++
			}
			judgeDamage(t, st, "burst", first, c07decode(st, d, c.Dest, br), true)
			t.Count("bursts", 1)
		}
		t.Nontrivial("")
	}
}

var _ = io.EOF

func runC07(r *vf.Runner) {
	run := func(c c07case) { r.Case(c, func(t *vf.T) { runC07case(t, c) }) }
	batchScripts := [][]int{{3}, {0}, {1, 0, 2}, {0, 0}, {2, 3, 1}, {128}, {129, 1}, {5, 5, 5, 5}, {1}, {300, 2}}
	// fidelity: schemas x batch scripts x destination scripts
	for si := range frameSchemas {
		for bi, bs := range batchScripts {
			for di, ds := range destScripts {
				if r.Quick() && (bi+di+si)%3 != 0 {
					continue
				}
				run(c07case{Kind: "fidelity", Schema: si, Batches: bs, Dest: ds, Data: uint64(si*100 + bi*10 + di)})
			}
		}
	}
	rnd := r.Rand("fid")
	nf := 300
	if !r.Quick() {
		nf = 6000
	}
	for i := 0; i < nf; i++ {
		c := c07case{Kind: "fidelity", Schema: rnd.Intn(len(frameSchemas)), Data: rnd.Uint64()}
		for j, n := 0, 1+rnd.Intn(5); j < n; j++ {
			c.Batches = append(c.Batches, rnd.Pick(0, 1, 2, 3, 7, 127, 128, 129, 200))
		}
		for j, n := 0, 1+rnd.Intn(3); j < n; j++ {
			c.Dest = append(c.Dest, rnd.Pick(1, 2, 3, 5, 64, 127, 128, 129, 256))
		}
		run(c)
	}
	// damage: exhaustive bit flips and truncations of small streams
	// 13: every column has a lenient custom codec, so nothing but the checksum guards the batch length
	schemas := []int{1, 0, 13}
	if !r.Quick() {
		schemas = []int{1, 0, 13, 2, 3, 4, 8, 5}
	}
	for _, si := range schemas {
		for _, ds := range [][]int{{1}, {3}, {8}} {
			c := c07case{Schema: si, Batches: []int{3, 4, 2}, Dest: ds, Data: uint64(77 + si)}
			st, err := c07encode(c)
			if err != nil {
				continue
			}
			step := 16
			for from := 0; from < len(st.bytes); from += step {
				cc := c
				cc.Kind, cc.From, cc.To = "flips", from, from+step
				run(cc)
			}
			for from := 0; from <= len(st.bytes); from += 64 {
				cc := c
				cc.Kind, cc.From, cc.To = "truncs", from, from+64
				run(cc)
			}
			for from := 0; from <= len(st.bytes); from += 64 {
				cc := c
				cc.Kind, cc.From, cc.To = "lenbytes", from, from+64
				run(cc)
			}
			if !r.Quick() || (si == 1 && ds[0] == 3) {
				for from := 0; from < len(st.bytes); from += 8 {
					cc := c
					cc.Kind, cc.From, cc.To = "bytevals", from, from+8
					run(cc)
				}
			}
		}
	}
	// regression: damaged column lengths decoded over the spare capacity of the reader's scratch
	// buffer (rows of which alias byte slices delivered earlier) -- pointer-carrying columns, tiny destinations
	for _, si := range []int{7, 2, 5} {
		for k := 0; k < 4; k++ {
			run(c07case{Kind: "burst", Schema: si, Batches: []int{40, 128, 7, 60}, Dest: []int{1}, Data: 6289351555247807603 + uint64(k), N: 400})
		}
	}
	// random bursts on larger streams
	nb := 40
	if !r.Quick() {
		nb = 1500
	}
	for i := 0; i < nb; i++ {
		c := c07case{Kind: "burst", Schema: rnd.Intn(len(frameSchemas)), Batches: []int{40, 128, 7, 60}, Dest: []int{rnd.Pick(1, 16, 128, 200)}, Data: rnd.Uint64(), N: 100}
		run(c)
	}
}

func init() {
	// gob assigns type ids in order of first use in a process; encode one value of every schema
	// in a fixed order at start-up so that encoded streams (and hence replays) do not depend on
	// which cases ran earlier in the process.
	setups = append(setups, func() {
		for si := range frameSchemas {
			c07encode(c07case{Schema: si, Batches: []int{1}, Data: 1})
		}
	})
}
