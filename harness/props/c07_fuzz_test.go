package props

import (
	"fmt"
	"os"
	"strings"
	"testing"

	"verifharness/internal/vf"
)

// Coverage-guided fuzzing of the row-stream decoder (C07, thorough tier). The orchestrator builds
// this file as a fuzz-instrumented test binary and runs it for a fixed number of executions.
//
// An input is (schema selector, destination size selector, bytes). The bytes are decoded with
// sliceio.NewDecodingReader through the destination adversary of C17. What is judged depends on how
// the bytes relate to the stream the monitor itself encoded for that schema:
//
//   - always: no panic, 0<=n<=len(dst), canaries intact, frames delivered earlier unchanged, the
//     stream ends (these hold for every byte string);
//   - the bytes are a proper prefix of the encoded stream: the truncation oracle of C07;
//   - the bytes have the length of the encoded stream and differ from it inside a window of at most
//     8 bytes ("short error burst"): the damage oracle of C07 (an error, rows before it correct and
//     not beyond the damaged batch).
//
// Anything else the mutator builds (spliced, duplicated or deleted ranges) may be a different valid
// stream -- whole batches carry their own checksums and can be repeated or dropped without leaving a
// trace -- so only the structural checks apply to it.

var c07fuzzSchemas = []int{1, 2, 3, 4, 5, 7, 10, 12, 0} // not 8: its damaged map counts abort the process (known finding)

type c07fuzzBase struct {
	c  c07case
	st *c07stream
}

var c07fuzzBases []c07fuzzBase

func c07fuzzSetup() {
	if c07fuzzBases != nil {
		return
	}
	Setup()
	for i, si := range c07fuzzSchemas {
		c := c07case{Schema: si, Batches: []int{3, 4, 2}, Data: uint64(900 + si)}
		if i%2 == 1 {
			c.Batches = []int{20, 0, 5}
		}
		st, err := c07encode(c)
		if err != nil {
			panic(err)
		}
		c07fuzzBases = append(c07fuzzBases, c07fuzzBase{c, st})
	}
}

type c07fuzzSink struct {
	sig, what string
}

func FuzzC07Decode(f *testing.F) {
	c07fuzzSetup()
	for i, b := range c07fuzzBases {
		f.Add(uint8(i), uint8(0), b.st.bytes)
		f.Add(uint8(i), uint8(2), b.st.bytes[:len(b.st.bytes)/2])
		d := append([]byte{}, b.st.bytes...)
		d[len(d)/3] ^= 0x10
		f.Add(uint8(i), uint8(7), d)
	}
	f.Fuzz(func(t *testing.T, sel uint8, dsel uint8, data []byte) {
		b := c07fuzzBases[int(sel)%len(c07fuzzBases)]
		st := b.st
		dest := []int{[]int{1, 2, 3, 5, 8, 64, 128, 129, 300}[int(dsel)%9]}
		if len(data) > 4*len(st.bytes)+64 {
			return
		}
		rnd := vf.NewRand(uint64(sel)<<8 | uint64(dsel))
		o := c07decode(st, data, dest, rnd)
		fail := func(sig, what string) {
			t.Fatalf("C07FUZZ sig=[fuzz %s] schema=%s :: %s", sig, strings.Join(frameSchemas[b.c.Schema].Cols, ","), what)
		}
		if o.panicV != nil {
			fail("panic:"+o.panicAt, fmt.Sprintf("decoder panicked: %v", o.panicV))
		}
		if o.res.bad != "" {
			fail(o.res.bad, o.res.what)
		}
		if o.alloc > 1<<30 {
			fail("alloc-over-1GiB", fmt.Sprintf("decoding %d bytes allocated %d bytes", len(data), o.alloc))
		}
		orig := st.bytes
		// relation of the input to the encoded stream
		first := 0
		for first < len(data) && first < len(orig) && data[first] == orig[first] {
			first++
		}
		sink := &c07fuzzSink{}
		switch {
		case len(data) == len(orig) && first == len(orig):
			// the undamaged stream
			if o.res.err != nil {
				fail("undamaged error", o.res.err.Error())
			}
			if d := rowsDiff(o.res.rows, st.rows, false); d != "" {
				fail("undamaged rows-differ", d)
			}
		case len(data) < len(orig) && first == len(data):
			mid := first != 0
			for _, e := range st.batchEnd {
				if first == e {
					mid = false
				}
			}
			c07judgePure(sink, st, "trunc", first, o, mid)
		case len(data) == len(orig):
			last := len(orig) - 1
			for last > first && data[last] == orig[last] {
				last--
			}
			if last-first < 8 {
				c07judgePure(sink, st, "burst", first, o, true)
			}
		}
		if sink.sig != "" {
			fail(sink.sig, sink.what)
		}
	})
}

// c07judgePure is judgeDamage without a vf.T (the fuzz worker has no runner): same oracle.
func c07judgePure(s *c07fuzzSink, st *c07stream, kind string, at int, o c07outcome, midBatch bool) {
	role := "payload"
	if at < len(st.bytes) {
		role = st.role(at)
	}
	set := func(outcome, what string) {
		if s.sig == "" {
			s.sig, s.what = fmt.Sprintf("%s %s -> %s", kind, role, outcome), what
		}
	}
	res := o.res
	b := st.batchOf(at)
	if len(res.rows) > len(st.rows) {
		set("extra-rows", fmt.Sprintf("%s at byte %d: %d rows delivered, %d written", kind, at, len(res.rows), len(st.rows)))
		return
	}
	for i := range res.rows {
		if !rowEq(res.rows[i], st.rows[i], false) {
			set("wrong-row", fmt.Sprintf("%s at byte %d (batch %d): delivered row %d is %s, written %s", kind, at, b, i, rowStr(res.rows[i]), rowStr(st.rows[i])))
			return
		}
	}
	if midBatch {
		if res.err == nil {
			set("clean-EOF", fmt.Sprintf("%s at byte %d (inside batch %d of %d, stream %d bytes): clean end after %d of %d rows", kind, at, b, len(st.batchEnd), len(st.bytes), len(res.rows), len(st.rows)))
			return
		}
		if len(res.rows) > st.batchRow[b] {
			set("rows-after-damage", fmt.Sprintf("%s at byte %d (batch %d): %d rows delivered before the error, only %d precede the end of the damaged batch", kind, at, b, len(res.rows), st.batchRow[b]))
		}
		return
	}
	want := 0
	if at > 0 {
		want = st.batchRow[st.batchOf(at-1)]
	}
	if res.err == nil && len(res.rows) != want {
		set("boundary-rows", fmt.Sprintf("truncation at batch boundary %d: %d rows, want %d", at, len(res.rows), want))
	}
}

var _ = os.Getenv
