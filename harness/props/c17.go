package props

import (
	"bytes"
	"context"
	"fmt"
	"os"
	"reflect"
	"sort"
	"strings"

	"github.com/grailbio/bigslice"
	"github.com/grailbio/bigslice/exec"
	"github.com/grailbio/bigslice/frame"
	"github.com/grailbio/bigslice/sliceio"
	"verifharness/internal/vf"
)

// C17 — readers and scanners deliver the same rows however they are read.
// Subjects are driven with scripted upstream chunkings and destination sizes; the expected
// sequence comes from a row-level statement of each operator.

func init() { Registry["C17"] = runC17 }

type c17case struct {
	Subject string    `json:"subject"`
	Rows    []int     `json:"rows"` // rows per upstream stream
	Chunks  [][]chunk `json:"chunks"`
	Dest    []int     `json:"dest"`
	Param   int       `json:"param"`
	Data    uint64    `json:"dataseed"`
}

var c17schema = schema{[]string{"int", "string"}, 1}
var c17schemaKV = schema{[]string{"int", "int64"}, 1}

func colsIntString(rows []row) ([]int, []string) {
	ks, vs := make([]int, len(rows)), make([]string, len(rows))
	for i, r := range rows {
		ks[i], vs[i] = r[0].(int), r[1].(string)
	}
	return ks, vs
}

func colsIntInt64(rows []row) ([]int, []int64) {
	ks, vs := make([]int, len(rows)), make([]int64, len(rows))
	for i, r := range rows {
		ks[i], vs[i] = r[0].(int), r[1].(int64)
	}
	return ks, vs
}

// c17subject describes how to build a subject reader and what it must deliver.
type c17built struct {
	ts       []*colType // output columns
	r        sliceio.Reader
	want     []row
	ordered  bool
	noCanary bool // destination is handed to a user function by design
	post     func() string
	ups      []*chunkedReader
}

func c17build(c c17case, rnd *vf.Rand) (b c17built, ok bool) {
	ts := c17schema.types()
	gen := func(n int, small bool) []row {
		rows := make([]row, n)
		for i := range rows {
			rows[i] = genRow(ts, rnd, small)
		}
		return rows
	}
	script := func(i int) []chunk {
		if len(c.Chunks) == 0 {
			return nil
		}
		return c.Chunks[i%len(c.Chunks)]
	}
	src := bigslice.Const(1, []int{}, []string{})
	n0 := 0
	if len(c.Rows) > 0 {
		n0 = c.Rows[0]
	}
	in := gen(n0, c.Subject == "fold" || c.Subject == "cogroup")
	up := newChunkedReader(ts, cloneRows(in), script(0))
	b.ts = ts
	b.ordered = true
	b.ups = []*chunkedReader{up}
	deps := []sliceio.Reader{up}
	switch c.Subject {
	case "const":
		nshard := 1 + c.Param%3
		shard := (c.Param / 3) % nshard
		ks, vs := colsIntString(in)
		b.r = bigslice.Const(nshard, ks, vs).Reader(shard, nil)
		q, rem := len(in)/nshard, len(in)%nshard
		off := 0
		for s := 0; s < shard; s++ {
			off += q
			if s < rem {
				off++
			}
		}
		cnt := q
		if shard < rem {
			cnt++
		}
		b.want = in[off : off+cnt]
		b.ups = nil
	case "readerfunc":
		rows := cloneRows(in)
		sc := script(0)
		if len(sc) == 0 {
			sc = []chunk{{N: 1 << 20}}
		}
		call := 0
		s := bigslice.ReaderFunc(1, func(shard int, state *int, ks []int, vs []string) (int, error) {
			ch := sc[call%len(sc)]
			call++
			n := ch.N
			if n > len(rows) {
				n = len(rows)
			}
			if n > len(ks) {
				n = len(ks)
			}
			for i := 0; i < n; i++ {
				ks[i], vs[i] = rows[i][0].(int), rows[i][1].(string)
			}
			rows = rows[n:]
			if len(rows) == 0 && (ch.EOF || (n == 0 && ch.N > 0)) {
				return n, sliceio.EOF
			}
			return n, nil
		})
		b.r = s.Reader(0, nil)
		b.want = in
		b.noCanary = true
		b.ups = nil
	case "map":
		s := bigslice.Map(src, func(k int, v string) (string, int) { return v + "!", k * 2 })
		b.r = s.Reader(0, deps)
		b.ts = schema{[]string{"string", "int"}, 1}.types()
		for _, r := range in {
			b.want = append(b.want, row{r[1].(string) + "!", r[0].(int) * 2})
		}
	case "filter":
		m := 2 + c.Param%50
		s := bigslice.Filter(src, func(k int, v string) bool { return (k%m+m)%m == 0 })
		b.r = s.Reader(0, deps)
		for _, r := range in {
			if (r[0].(int)%m+m)%m == 0 {
				b.want = append(b.want, r)
			}
		}
	case "flatmap":
		fan := 1 + c.Param%300
		f := func(k int) int { return (k%fan + fan) % fan % 7 * (1 + (k&1)*fan/3) }
		s := bigslice.Flatmap(src, func(k int, v string) ([]int, []string) {
			n := f(k)
			ks, vs := make([]int, n), make([]string, n)
			for i := range ks {
				ks[i], vs[i] = k+i, v
			}
			return ks, vs
		})
		b.r = s.Reader(0, deps)
		for _, r := range in {
			for i, n := 0, f(r[0].(int)); i < n; i++ {
				b.want = append(b.want, row{r[0].(int) + i, r[1]})
			}
		}
	case "fold":
		s := bigslice.Fold(src, func(acc int64, v string) int64 { return acc + int64(len(v)) + 1 })
		b.r = s.Reader(0, deps)
		b.ts = c17schemaKV.types()
		m := map[int]int64{}
		for _, r := range in {
			m[r[0].(int)] += int64(len(r[1].(string))) + 1
		}
		for k, v := range m {
			b.want = append(b.want, row{k, v})
		}
		b.ordered = false
	case "head":
		n := c.Param % (n0 + 3)
		s := bigslice.Head(src, n)
		b.r = s.Reader(0, deps)
		if n > len(in) {
			n = len(in)
		}
		b.want = in[:n]
	case "writerfunc":
		var seen []row
		eofs := 0
		s := bigslice.WriterFunc(src, func(shard int, state *int, err error, ks []int, vs []string) error {
			for i := range ks {
				seen = append(seen, row{ks[i], vs[i]})
			}
			if err == sliceio.EOF {
				eofs++
			}
			return nil
		})
		b.r = s.Reader(0, deps)
		b.want = in
		b.post = func() string {
			if d := rowsDiff(seen, in, true); d != "" {
				return "writer callback rows: " + d
			}
			if eofs != 1 {
				return fmt.Sprintf("writer callback saw end-of-stream %d times", eofs)
			}
			return ""
		}
	case "scan":
		var seen []row
		var serr error
		s := bigslice.Scan(src, func(shard int, sc *sliceio.Scanner) error {
			var k int
			var v string
			for sc.Scan(context.Background(), &k, &v) {
				seen = append(seen, row{k, v})
			}
			serr = sc.Err()
			return serr
		})
		b.r = s.Reader(0, deps)
		b.ts = nil
		b.want = nil
		b.post = func() string {
			if serr != nil {
				return "scanner error at clean end: " + serr.Error()
			}
			if d := rowsDiff(seen, in, true); d != "" {
				return "scan callback rows: " + d
			}
			return ""
		}
	case "reshuffle":
		b.r = bigslice.Reshuffle(src).Reader(0, deps)
		b.want = in
	case "reduce", "execmulti", "multi", "cogroup":
		// several upstream streams
		kts := c17schemaKV.types()
		var streams [][]row
		deps = nil
		b.ups = nil
		for i, n := range c.Rows {
			var rows []row
			switch c.Subject {
			case "reduce":
				seen := map[int]bool{}
				for len(rows) < n {
					k := rnd.Intn(3*n + 5)
					if seen[k] {
						continue
					}
					seen[k] = true
					rows = append(rows, row{k, int64(rnd.Intn(100))})
				}
				sortRows(kts, 1, rows)
			case "cogroup":
				for j := 0; j < n; j++ {
					rows = append(rows, row{rnd.Intn(n/2 + 2), words[rnd.Intn(len(words))]})
				}
			default:
				rows = gen(n, false)
			}
			streams = append(streams, rows)
			t := ts
			if c.Subject == "reduce" {
				t = kts
			}
			u := newChunkedReader(t, cloneRows(rows), script(i))
			b.ups = append(b.ups, u)
			deps = append(deps, u)
		}
		switch c.Subject {
		case "reduce":
			if len(deps) == 0 {
				return b, false
			}
			s := bigslice.Reduce(bigslice.Const(1, []int{}, []int64{}), func(a, b int64) int64 { return a + b })
			b.r = s.Reader(0, deps)
			b.ts = kts
			m := map[int]int64{}
			for _, st := range streams {
				for _, r := range st {
					m[r[0].(int)] += r[1].(int64)
				}
			}
			for k, v := range m {
				b.want = append(b.want, row{k, v})
			}
			sortRows(kts, 1, b.want)
			if len(deps) == 1 {
				b.want = streams[0]
			}
		case "multi":
			rcs := make([]sliceio.ReadCloser, len(deps))
			for i := range deps {
				rcs[i] = b.ups[i]
			}
			b.r = sliceio.MultiReader(rcs...)
			for _, st := range streams {
				b.want = append(b.want, st...)
			}
		case "execmulti":
			b.r = exec.VerifMultiReader(deps...)
			for _, st := range streams {
				b.want = append(b.want, st...)
			}
		case "cogroup":
			if len(deps) == 0 {
				return b, false
			}
			srcs := make([]bigslice.Slice, len(deps))
			for i := range srcs {
				srcs[i] = src
			}
			s := bigslice.Cogroup(srcs...)
			b.r = s.Reader(0, deps)
			b.ts = nil // compared by cogroupRows
			keys := map[int][][]string{}
			for i, st := range streams {
				for _, r := range st {
					k := r[0].(int)
					if keys[k] == nil {
						keys[k] = make([][]string, len(streams))
					}
					keys[k][i] = append(keys[k][i], r[1].(string))
				}
			}
			var ks []int
			for k := range keys {
				ks = append(ks, k)
			}
			sort.Ints(ks)
			for _, k := range ks {
				rw := row{k}
				for i := range streams {
					g := append([]string{}, keys[k][i]...)
					sort.Strings(g)
					rw = append(rw, strings.Join(g, "\x01")+fmt.Sprintf("#%d", len(g)))
				}
				b.want = append(b.want, rw)
			}
		}
	case "framereader":
		f, _ := frameOf(ts, in, 0)
		b.r = sliceio.FrameReader(f)
		b.want = in
		b.ups = nil
	case "taskbuffer":
		// partitions of frames as the local executor buffers them
		var parts [][]frame.Frame
		np := 1 + c.Param%3
		want := c.Param / 3 % np
		for p := 0; p < np; p++ {
			var fs []frame.Frame
			for _, n := range c.Rows {
				rows := gen(n, false)
				f, _ := frameOf(ts, rows, 0)
				fs = append(fs, f)
				if p == want {
					b.want = append(b.want, rows...)
				}
			}
			parts = append(parts, fs)
		}
		b.r = exec.VerifTaskBufferReader(parts, want)
		b.ups = nil
	case "decoding", "spill", "filestore", "memstore":
		// the rows are written in batches following the chunk script (an empty chunk writes nothing)
		var batches []frame.Frame
		sc := script(0)
		for off, k := 0, 0; off < len(in); k++ {
			n := 1 << 20
			if len(sc) > 0 {
				n = sc[k%len(sc)].N
			}
			if n == 0 {
				n = 1 + k%3
			}
			if n > len(in)-off {
				n = len(in) - off
			}
			f, _ := frameOf(ts, in[off:off+n], 0)
			batches = append(batches, f)
			off += n
		}
		b.want = in
		b.ups = nil
		ctx := context.Background()
		switch c.Subject {
		case "decoding":
			var buf bytes.Buffer
			enc := sliceio.NewEncodingWriter(&buf)
			for _, f := range batches {
				if err := enc.Write(ctx, f); err != nil {
					panic(err)
				}
			}
			b.r = sliceio.NewDecodingReader(&buf)
		case "spill":
			sp, err := sliceio.NewSpiller("c17")
			if err != nil {
				panic(err)
			}
			if len(batches) == 0 {
				sp.Cleanup()
				return b, false
			}
			// one spill file per group of batches: Param decides how many batches go into each file
			per := 1 + c.Param%3
			saved := sliceio.SpillBatchSize
			sliceio.SpillBatchSize = []int{128, 3, 1, 50}[c.Param/3%4]
			defer func() { sliceio.SpillBatchSize = saved }()
			var rs []sliceio.Reader
			for i := 0; i < len(batches); i += per {
				n := 0
				for _, f := range batches[i:min(i+per, len(batches))] {
					n += f.Len()
				}
				g := frame.Make(batches[i], n, n)
				o := 0
				for _, f := range batches[i:min(i+per, len(batches))] {
					frame.Copy(g.Slice(o, n), f)
					o += f.Len()
				}
				if _, err := sp.Spill(g); err != nil {
					panic(err)
				}
			}
			rcs, err := sp.Readers()
			if err != nil {
				panic(err)
			}
			for _, rc := range rcs {
				rs = append(rs, rc)
			}
			b.r = sliceio.MultiReader(rcsOf(rs)...)
			b.ordered = false
			b.post = func() string { sp.Cleanup(); return "" }
		default:
			var store exec.Store
			dir := ""
			if c.Subject == "filestore" {
				dir, _ = os.MkdirTemp("", "c17-")
				store = exec.VerifFileStore(dir + "/")
			} else {
				store = exec.VerifMemoryStore()
			}
			name := exec.TaskName{InvIndex: 1, Op: "verif_c17", Shard: 0, NumShard: 1}
			w, err := store.Create(ctx, name, 0)
			if err != nil {
				panic(err)
			}
			enc := sliceio.NewEncodingWriter(w)
			for _, f := range batches {
				if err := enc.Write(ctx, f); err != nil {
					panic(err)
				}
			}
			if err := w.Commit(ctx, int64(len(in))); err != nil {
				panic(err)
			}
			rc, err := store.Open(ctx, name, 0, 0)
			if err != nil {
				panic(err)
			}
			b.r = sliceio.NewDecodingReader(rc)
			b.post = func() string {
				rc.Close()
				if dir != "" {
					os.RemoveAll(dir)
				}
				return ""
			}
		}
	default:
		panic("unknown subject " + c.Subject)
	}
	return b, true
}

func rcsOf(rs []sliceio.Reader) []sliceio.ReadCloser {
	out := make([]sliceio.ReadCloser, len(rs))
	for i, r := range rs {
		out[i] = r.(sliceio.ReadCloser)
	}
	return out
}

// cogroupRows converts cogroup output (key, []string per input) into comparable rows.
func cogroupRows(f frame.Frame, n int) []row {
	out := make([]row, n)
	for i := 0; i < n; i++ {
		rw := row{f.Index(0, i).Interface()}
		for c := 1; c < f.NumOut(); c++ {
			g := append([]string{}, f.Index(c, i).Interface().([]string)...)
			sort.Strings(g)
			rw = append(rw, strings.Join(g, "\x01")+fmt.Sprintf("#%d", len(g)))
		}
		out[i] = rw
	}
	return out
}

func runC17case(t *vf.T, c c17case) {
	rnd := vf.NewRand(c.Data)
	if strings.HasPrefix(c.Subject, "scanner") {
		runC17scanner(t, c, rnd)
		return
	}
	b, ok := c17build(c, rnd)
	if !ok {
		return
	}
	sig := "subject=" + c.Subject
	var res driveResult
	switch {
	case c.Subject == "cogroup":
		res = driveCogroup(b.r, len(c.Rows), c.Dest, len(b.want)*2+50)
	case c.Subject == "scan":
		f := frame.Make(bigslice.Const(1, []int{}), 1, 1)
		n, err := b.r.Read(context.Background(), f.Slice(0, 0))
		if n != 0 || err != sliceio.EOF {
			t.Violate(sig+" result", fmt.Sprintf("scan reader returned (%d, %v), want (0, EOF)", n, err))
			return
		}
	default:
		total := len(b.want)
		for _, n := range c.Rows {
			total += n
		}
		res = driveReaderOpt(b.ts, b.r, c.Dest, rnd, total*8+200, !b.noCanary)
	}
	if res.bad != "" {
		t.Violate(sig+" "+res.bad, res.what)
		return
	}
	if res.err != nil {
		t.Violate(sig+" error", "reader failed on valid input: "+res.err.Error())
		return
	}
	if c.Subject != "scan" {
		if b.ordered {
			if d := rowsDiff(res.rows, b.want, true); d != "" {
				t.Violate(sig+" rows", fmt.Sprintf("%s (upstream %v chunks %v dest %v)", d, c.Rows, c.Chunks, c.Dest))
				return
			}
		} else if !sameMultiset(res.rows, b.want) {
			t.Violate(sig+" rows", fmt.Sprintf("multiset differs: got %s want %s", rowsStr(res.rows), rowsStr(b.want)))
			return
		}
	}
	if b.post != nil {
		if d := b.post(); d != "" {
			t.Violate(sig+" callback", d)
			return
		}
	}
	t.Count("rows_delivered", int64(len(res.rows)))
	t.Count("reads", int64(res.calls))
	t.Seen("subjects", c.Subject)
	t.Nontrivial("")
}

// driveCogroup is driveReader for cogroup's output type (key + one []string column per input).
func driveCogroup(r sliceio.Reader, ninputs int, sizes []int, maxCalls int) (res driveResult) {
	typs := []reflect.Type{reflect.TypeOf(int(0))}
	for i := 0; i < ninputs; i++ {
		typs = append(typs, reflect.TypeOf([]string(nil)))
	}
	ctx := context.Background()
	for call := 0; ; call++ {
		if call >= maxCalls {
			res.bad, res.what = "no-end", "no EOF"
			return
		}
		sz := sizes[call%len(sizes)]
		cols := make([]reflect.Value, len(typs))
		for i, tp := range typs {
			cols[i] = reflect.MakeSlice(reflect.SliceOf(tp), sz, sz)
			for j := 0; j < sz; j++ {
				if i == 0 {
					cols[i].Index(j).SetInt(-777)
				} else {
					cols[i].Index(j).Set(reflect.ValueOf([]string{"canary"}))
				}
			}
		}
		f := frame.Values(cols)
		n, err := r.Read(ctx, f)
		res.calls++
		if n < 0 || n > sz {
			res.bad, res.what = "n-out-of-range", fmt.Sprintf("n=%d dest=%d", n, sz)
			return
		}
		if err == nil || err == sliceio.EOF {
			for j := n; j < sz; j++ {
				if cols[0].Index(j).Int() != -777 {
					res.bad, res.what = "wrote-beyond-n", fmt.Sprintf("call %d: n=%d but row %d of the destination changed", call, n, j)
					return
				}
			}
		}
		if err != nil && err != sliceio.EOF {
			res.err = err
			return
		}
		res.rows = append(res.rows, cogroupRows(f, n)...)
		if err == sliceio.EOF {
			return
		}
	}
}

func runC17scanner(t *vf.T, c c17case, rnd *vf.Rand) {
	ts := c17schema.types()
	rows := make([]row, c.Rows[0])
	for i := range rows {
		rows[i] = genRow(ts, rnd, false)
	}
	var sc []chunk
	if len(c.Chunks) > 0 {
		sc = c.Chunks[0]
	}
	up := newChunkedReader(ts, cloneRows(rows), sc)
	s := sliceio.NewScanner(c17schema.sliceType(1), up)
	ctx := context.Background()
	sig := "subject=" + c.Subject
	var got []row
	switch c.Subject {
	case "scanner":
		var k int
		var v string
		for s.Scan(ctx, &k, &v) {
			got = append(got, row{k, v})
			if len(got) > len(rows)+5 {
				break
			}
		}
	case "scannerv":
		for call := 0; ; call++ {
			sz := c.Dest[call%len(c.Dest)]
			ks, vs := make([]int, sz), make([]string, sz)
			n, ok := s.Scanv(ctx, ks, vs)
			for i := 0; i < n; i++ {
				got = append(got, row{ks[i], vs[i]})
			}
			if !ok || len(got) > len(rows)+5 {
				break
			}
		}
	case "scanner-badarity":
		var k int
		if s.Scan(ctx, &k) || s.Err() == nil {
			t.Violate(sig, "Scan with one destination for a two-column scanner did not fail")
		}
		// a wrong destination after correct calls is rejected in the same way
		for _, good := range []int{1, 2, 130} {
			s3 := sliceio.NewScanner(c17schema.sliceType(1), newChunkedReader(ts, cloneRows(rows), sc))
			var a int
			var b string
			n := 0
			for n < good && s3.Scan(ctx, &a, &b) {
				n++
			}
			if n < good {
				continue // fewer rows than that
			}
			func() {
				defer func() {
					if e := recover(); e != nil {
						t.Violate(sig+" after-good-calls panic", fmt.Sprintf("Scan with one destination after %d correct calls panicked: %v", good, e))
					}
				}()
				var c int
				if s3.Scan(ctx, &c) || s3.Err() == nil {
					t.Violate(sig+" after-good-calls", fmt.Sprintf("Scan with one destination for a two-column scanner, after %d correct calls, did not fail", good))
				}
				s4 := sliceio.NewScanner(c17schema.sliceType(1), newChunkedReader(ts, cloneRows(rows), sc))
				if s4.Scan(ctx, &a, &b) {
					var x, y int
					if s4.Scan(ctx, &x, &y) || s4.Err() == nil {
						t.Violate(sig+" after-good-calls", "Scan with *int for a string column, after a correct call, did not fail")
					}
				}
			}()
		}
		t.Nontrivial("")
		return
	case "scanner-badtype":
		var k int
		var v int
		if s.Scan(ctx, &k, &v) || s.Err() == nil {
			t.Violate(sig, "Scan with *int for a string column did not fail")
		}
		var k2 string
		s2 := sliceio.NewScanner(c17schema.sliceType(1), newChunkedReader(ts, cloneRows(rows), sc))
		if s2.Scan(ctx, k2, &v) || s2.Err() == nil {
			t.Violate(sig, "Scan with a non-pointer destination did not fail")
		}
		t.Nontrivial("")
		return
	}
	if err := s.Err(); err != nil {
		t.Violate(sig+" err-at-clean-end", "Err() = "+err.Error())
		return
	}
	if d := rowsDiff(got, rows, true); d != "" {
		t.Violate(sig+" rows", d)
		return
	}
	if err := s.Close(); err != nil || !up.closed {
		t.Violate(sig+" close", fmt.Sprintf("Close: %v, underlying closed=%v", err, up.closed))
	}
	t.Count("rows_delivered", int64(len(got)))
	t.Seen("subjects", c.Subject)
	t.Nontrivial("")
}

var c17subjects = []string{"const", "readerfunc", "map", "filter", "flatmap", "fold", "head", "writerfunc", "scan", "reshuffle", "reduce", "cogroup",
	"multi", "execmulti", "framereader", "taskbuffer", "decoding", "spill", "filestore", "memstore", "scanner", "scannerv", "scanner-badarity", "scanner-badtype"}

// subjects whose documented contract excludes upstream reads that return (0, nil)
var c17noEmptyReads = map[string]bool{"reduce": true}

func runC17(r *vf.Runner) {
	run := func(c c17case) { r.Case(c, func(t *vf.T) { runC17case(t, c) }) }
	withEmpty := [][]chunk{
		{{N: 1 << 20}}, {{N: 1}}, {{N: 2}, {N: 0}}, {{N: 0}, {N: 0}, {N: 3}}, {{N: 1 << 20, EOF: true}}, {{N: 2, EOF: true}}, {{N: 127}, {N: 1}, {N: 129, EOF: true}}, {{N: 128}}, {{N: 129}},
	}
	noEmpty := [][]chunk{{{N: 1 << 20}}, {{N: 1}}, {{N: 3}, {N: 7, EOF: true}}, {{N: 1 << 20, EOF: true}}, {{N: 2, EOF: true}}, {{N: 127}, {N: 1}, {N: 129, EOF: true}}}
	dests := [][]int{{1}, {2}, {3}, {127}, {128}, {129}, {1, 300, 2}, {5}}
	sizes := []int{0, 1, 2, 3, 5, 6, 127, 128, 129, 300}
	// bounded-exhaustive part: subject x size x chunk script x destination script
	for _, sub := range c17subjects {
		scripts := withEmpty
		if c17noEmptyReads[sub] {
			scripts = noEmpty
		}
		for si, n := range sizes {
			for ci, cs := range scripts {
				for di, ds := range dests {
					if r.Quick() && (si+ci+di)%4 != 0 {
						continue
					}
					rows := []int{n}
					chunks := [][]chunk{cs}
					switch sub {
					case "reduce", "cogroup", "multi", "execmulti", "taskbuffer":
						rows = []int{n, 0, (n + 1) / 2}
						chunks = [][]chunk{cs, scripts[(ci+1)%len(scripts)], scripts[(ci+2)%len(scripts)]}
						if sub == "cogroup" {
							rows = rows[:1+di%3]
						}
					}
					run(c17case{Subject: sub, Rows: rows, Chunks: chunks, Dest: ds, Param: si*31 + ci*7 + di, Data: uint64(si*1000 + ci*10 + di)})
				}
			}
		}
	}
	// random part
	rnd := r.Rand("c17")
	n := 1500
	if !r.Quick() {
		n = 40000
	}
	for i := 0; i < n; i++ {
		sub := c17subjects[rnd.Intn(len(c17subjects))]
		scripts := withEmpty
		if c17noEmptyReads[sub] {
			scripts = noEmpty
		}
		c := c17case{Subject: sub, Param: rnd.Intn(1000), Data: rnd.Uint64()}
		for j, k := 0, 1+rnd.Intn(4); j < k; j++ {
			c.Rows = append(c.Rows, rnd.Pick(0, 1, 2, 6, 50, 127, 128, 129, 400))
			var sc []chunk
			for l, m := 0, 1+rnd.Intn(4); l < m; l++ {
				ch := chunk{N: rnd.Pick(0, 1, 2, 5, 127, 128, 129, 1<<20), EOF: rnd.Chance(0.3)}
				if c17noEmptyReads[sub] && ch.N == 0 {
					ch.N = 1
				}
				sc = append(sc, ch)
			}
			if sc[len(sc)-1].N == 0 {
				sc = append(sc, chunk{N: 4})
			}
			c.Chunks = append(c.Chunks, sc)
		}
		_ = scripts
		for j, k := 0, 1+rnd.Intn(4); j < k; j++ {
			c.Dest = append(c.Dest, rnd.Pick(1, 2, 3, 7, 127, 128, 129, 500))
		}
		run(c)
	}
}
