package props

import (
	"context"
	"os"
)

var bgctx = context.Background()

func gomaxprocs() string { return os.Getenv("GOMAXPROCS") }
