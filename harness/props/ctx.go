package props

import "context"

var bgctx = context.Background()
