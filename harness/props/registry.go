// Package props holds the per-property monitors.
package props

import (
	"flag"
	"runtime/debug"

	"verifharness/internal/vf"
)

// Registry maps a property id to its monitor.
var Registry = map[string]func(r *vf.Runner){}

var setups []func()

// Setup runs process-wide initialisation that must precede any monitor.
func Setup() {
	_ = flag.CommandLine
	for _, f := range setups {
		f()
	}
}

func stackNow() []byte { return debug.Stack() }

func panicSiteNow() string { return vf.PanicSite(debug.Stack()) }
