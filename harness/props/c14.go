package props

import (
	"errors"
	"fmt"
	"sort"
	"sync"
	"sync/atomic"
	"time"

	berrors "github.com/grailbio/base/errors"
	"github.com/grailbio/bigmachine/testsystem"
	"github.com/grailbio/bigslice"
	"github.com/grailbio/bigslice/exec"
	"verifharness/internal/vf"
)

// C14 — the cluster manager never oversubscribes machines nor leaks capacity or requests.

func init() { Registry["C14"] = runC14 }

// ---------------------------------------------------------------- (a) placement function

type c14sched struct {
	Kind  string           `json:"kind"`
	Reqs  []exec.VerifReq  `json:"reqs"`
	Machs []exec.VerifMach `json:"machs"`
}

// refSchedule is an independent statement of the documented rule: take requests in priority
// order (lower value first, larger first within a priority); try the least loaded machine (most
// free procs); if the request does not fit, reserve that machine for it and go on with the next
// request and the next machine.
func refSchedule(reqs []exec.VerifReq, machs []exec.VerifMach) (prio, procs, free int, ok bool) {
	rs := append([]exec.VerifReq{}, reqs...)
	sort.SliceStable(rs, func(i, j int) bool {
		if rs[i].Priority != rs[j].Priority {
			return rs[i].Priority < rs[j].Priority
		}
		return rs[i].Procs > rs[j].Procs
	})
	var frees []int
	for _, m := range machs {
		frees = append(frees, m.MaxTaskProcs-m.TaskProcs)
	}
	sort.Sort(sort.Reverse(sort.IntSlice(frees)))
	for i := 0; i < len(rs) && i < len(frees); i++ {
		if frees[i] == 0 {
			return 0, 0, 0, false
		}
		if rs[i].Procs <= frees[i] {
			return rs[i].Priority, rs[i].Procs, frees[i], true
		}
	}
	return 0, 0, 0, false
}

func runC14sched(t *vf.T, maxReq, maxMach, first int) {
	var nontrivial int64
	var total int64
	// enumerate all queue/machine configurations
	var reqs []exec.VerifReq
	var machs []exec.VerifMach
	check := func() {
		total++
		req, mach, ra, ma, idxOK := exec.VerifSchedule(reqs, machs)
		prio, procs, free, ok := refSchedule(reqs, machs)
		desc := fmt.Sprintf("requests(priority,procs)=%v machines(max,used)=%v", reqs, machs)
		if !idxOK {
			t.Violate("placement heap-index", "heap index fields inconsistent after schedule: "+desc)
			return
		}
		if (req >= 0) != ok {
			t.Violate(fmt.Sprintf("placement grant=%v reference=%v", req >= 0, ok), fmt.Sprintf("schedule granted=%v, the documented rule grants=%v: %s", req >= 0, ok, desc))
			return
		}
		if ok {
			r, m := reqs[req], machs[mach]
			if r.Procs > m.MaxTaskProcs-m.TaskProcs {
				t.Violate("placement oversubscribes", fmt.Sprintf("request of %d procs placed on a machine with %d free: %s", r.Procs, m.MaxTaskProcs-m.TaskProcs, desc))
				return
			}
			if r.Priority != prio || r.Procs != procs || m.MaxTaskProcs-m.TaskProcs != free {
				t.Violate("placement differs-from-rule", fmt.Sprintf("schedule chose request (prio %d, procs %d) on a machine with %d free; the rule chooses (prio %d, procs %d) on %d free: %s", r.Priority, r.Procs, m.MaxTaskProcs-m.TaskProcs, prio, procs, free, desc))
				return
			}
		}
		// the queues must hold the same elements afterwards
		if len(ra) != len(reqs) || len(ma) != len(machs) {
			t.Violate("placement loses-elements", fmt.Sprintf("queues hold %d requests and %d machines after schedule: %s", len(ra), len(ma), desc))
			return
		}
		seen := map[int]bool{}
		for _, i := range ra {
			seen[i] = true
		}
		seenM := map[int]bool{}
		for _, i := range ma {
			seenM[i] = true
		}
		if len(seen) != len(reqs) || len(seenM) != len(machs) {
			t.Violate("placement duplicates-elements", "queues hold duplicates after schedule: "+desc)
			return
		}
		if len(reqs) > 0 && len(machs) > 0 {
			nontrivial++
		}
	}
	var recM func(k int)
	recM = func(k int) {
		check()
		if k == maxMach {
			return
		}
		for mx := 1; mx <= 4; mx++ {
			for used := 0; used <= mx; used++ {
				machs = append(machs, exec.VerifMach{MaxTaskProcs: mx, TaskProcs: used})
				recM(k + 1)
				machs = machs[:len(machs)-1]
			}
		}
	}
	var recR func(k int)
	recR = func(k int) {
		recM(0)
		if k == maxReq {
			return
		}
		for prio := 0; prio <= 2; prio++ {
			for procs := 1; procs <= 4; procs++ {
				reqs = append(reqs, exec.VerifReq{Priority: prio, Procs: procs})
				recR(k + 1)
				reqs = reqs[:len(reqs)-1]
			}
		}
	}
	if first < 0 {
		recM(0) // the empty request queue
	} else {
		reqs = append(reqs, exec.VerifReq{Priority: first / 4, Procs: 1 + first%4})
		recR(1)
	}
	t.Count("placement_configurations", total)
	t.Count("placement_nontrivial", nontrivial)
	t.Nontrivial("")
}

// ---------------------------------------------------------------- snapshots (b, c)

// c14watch asserts the manager invariants on every snapshot published by the loop hook.
type c14watch struct {
	mu        sync.Mutex
	snaps     int64
	viol      map[string]string
	lastSnap  map[interface{}]exec.VerifManagerSnapshot
	maxLoadBy map[int]int // capacity -> max taskProcs seen
	machines  map[string]bool
	filter    func(exec.VerifManagerSnapshot) bool
}

var c14w atomic.Value // *c14watch

// managers seen by earlier cases of this process (their sessions linger): not this case's business
var c14old sync.Map

func c14install(filter func(exec.VerifManagerSnapshot) bool) *c14watch {
	w := &c14watch{viol: map[string]string{}, lastSnap: map[interface{}]exec.VerifManagerSnapshot{}, maxLoadBy: map[int]int{}, machines: map[string]bool{}, filter: filter}
	c14w.Store(w)
	exec.VerifSetManagerObserver(func(s exec.VerifManagerSnapshot) {
		w, _ := c14w.Load().(*c14watch)
		if w == nil || (w.filter != nil && !w.filter(s)) {
			return
		}
		if owner, ok := c14old.Load(s.Manager); ok && owner != w {
			return
		}
		c14old.Store(s.Manager, w)
		w.mu.Lock()
		defer w.mu.Unlock()
		w.snaps++
		for _, m := range s.Machines {
			w.machines[m.Addr] = true
			if m.TaskProcs < 0 {
				w.viol["negative-load"] = fmt.Sprintf("machine %s has taskProcs %d (a proc was returned twice)", m.Addr, m.TaskProcs)
			}
			if m.TaskProcs > m.MaxTaskProcs {
				w.viol["oversubscribed"] = fmt.Sprintf("machine %s has %d task procs assigned, its capacity is %d", m.Addr, m.TaskProcs, m.MaxTaskProcs)
			}
			if m.MaxTaskProcs < 1 {
				w.viol["zero-capacity"] = fmt.Sprintf("machine %s has task capacity %d", m.Addr, m.MaxTaskProcs)
			}
			if m.TaskProcs > w.maxLoadBy[m.MaxTaskProcs] {
				w.maxLoadBy[m.MaxTaskProcs] = m.TaskProcs
			}
		}
		if s.Need < 0 {
			w.viol["negative-need"] = fmt.Sprintf("need is %d", s.Need)
		}
		sum := s.QueueProcs
		for _, m := range s.Machines {
			sum += m.TaskProcs
		}
		if s.Need < sum {
			// need counts queued requests and procs granted and not yet returned (also on machines
			// that were lost meanwhile), so it can exceed but never fall below what the snapshot shows
			w.viol["need-below-outstanding"] = fmt.Sprintf("need is %d but %d procs are queued or assigned", s.Need, sum)
		}
		if s.Pending < 0 {
			w.viol["negative-pending"] = fmt.Sprintf("pending is %d", s.Pending)
		}
		w.lastSnap[s.Manager] = s
	})
	return w
}

func (w *c14watch) report(t *vf.T, sig string) bool {
	w.mu.Lock()
	defer w.mu.Unlock()
	for k, v := range w.viol {
		t.Violate(sig+" "+k, v)
	}
	t.Count("manager_snapshots_checked", w.snaps)
	for cap, l := range w.maxLoadBy {
		t.Max(fmt.Sprintf("max_load_seen_capacity_%d", cap), int64(l))
	}
	return len(w.viol) > 0
}

// quiescent waits (bounded) for a snapshot in which no proc is assigned and the demand equals what
// is still queued (strict: and nothing is queued).
func (w *c14watch) quiescent(strict bool, d time.Duration) (exec.VerifManagerSnapshot, bool) {
	deadline := time.Now().Add(d)
	var last exec.VerifManagerSnapshot
	for time.Now().Before(deadline) {
		time.Sleep(5 * time.Millisecond)
		w.mu.Lock()
		ok := len(w.lastSnap) > 0
		for _, s := range w.lastSnap {
			last = s
			if s.Need != s.QueueProcs || (strict && s.Need != 0) {
				ok = false
			}
			for _, m := range s.Machines {
				if m.TaskProcs != 0 {
					ok = false
				}
			}
		}
		w.mu.Unlock()
		if ok {
			return last, true
		}
	}
	return last, false
}

// last returns the newest snapshot of the (single) manager this watch follows.
func (w *c14watch) last() (exec.VerifManagerSnapshot, bool) {
	w.mu.Lock()
	defer w.mu.Unlock()
	for _, s := range w.lastSnap {
		return s, true
	}
	return exec.VerifManagerSnapshot{}, false
}

func (w *c14watch) snapshots() int {
	w.mu.Lock()
	defer w.mu.Unlock()
	return len(w.lastSnap)
}

// ---------------------------------------------------------------- (b) live manager

type c14ev struct {
	Op    string `json:"op"` // offer cancel done-ok done-remote done-transport kill recv
	Prio  int    `json:"prio,omitempty"`
	Procs int    `json:"procs,omitempty"`
	Pick  int    `json:"pick,omitempty"`
}

type c14live struct {
	Kind      string  `json:"kind"`
	MachProcs int     `json:"machprocs"`
	MaxLoad   float64 `json:"maxload"`
	MaxP      int     `json:"maxp"`
	Events    []c14ev `json:"events"`
}

type c14grant struct {
	m     exec.VerifMachine
	procs int
}

func runC14live(t *vf.T, c c14live) {
	quietLogs()
	sys := testsystem.New()
	sys.Machineprocs = c.MachProcs
	sys.KeepalivePeriod, sys.KeepaliveTimeout, sys.KeepaliveRpcTimeout = 100*time.Millisecond, time.Second, 500*time.Millisecond
	var mgr *exec.VerifManager
	w := c14install(func(s exec.VerifManagerSnapshot) bool { return mgr != nil && mgr.Is(s) })
	mgr = exec.VerifNewManager(sys, c.MaxP, c.MaxLoad)
	defer mgr.Close()
	sig := fmt.Sprintf("live maxload=%.2f machprocs=%d", c.MaxLoad, c.MachProcs)
	type pend struct {
		o     *exec.VerifOffer
		procs int
		prio  int
	}
	var pending []*pend
	var granted []*c14grant
	ledger := map[string]int{} // client-side load per machine: never above the manager's true load
	capOf := mgr.MachProcs()
	// the capacity itself, stated independently in integers: the max-load share of the machine's
	// procs, rounded down, at least one
	wantCap := c.MachProcs * int(c.MaxLoad*100+0.5) / 100
	if wantCap < 1 {
		wantCap = 1
	}
	if capOf != wantCap {
		t.Violate(sig+" capacity-differs-from-max-load-share", fmt.Sprintf("the manager gives machines of %d procs a task capacity of %d at max load %.2f; the max-load share, rounded down and at least one, is %d", c.MachProcs, capOf, c.MaxLoad, wantCap))
		return
	}
	t.Count("capacities_checked_against_max_load_share", 1)
	maxNeed, killed := 0, 0
	killedAddrs := map[string]bool{}
	// recvAll receives on every queued request at once (round-robin polling: the manager offers a
	// machine to one request at a time, and not in the order the requests were made) until nothing
	// has been granted for d.
	recvAll := func(d time.Duration) {
		quietSince := time.Now()
		for len(pending) > 0 && time.Since(quietSince) < d {
			for i := 0; i < len(pending); {
				p := pending[i]
				m, ok := p.o.Recv(time.Millisecond)
				if !ok {
					i++
					continue
				}
				quietSince = time.Now()
				ledger[m.Addr()] += p.procs
				if ledger[m.Addr()] > capOf {
					t.Violate(sig+" client-ledger-oversubscribed", fmt.Sprintf("machine %s was granted %d procs in total while its capacity is %d", m.Addr(), ledger[m.Addr()], capOf))
				}
				granted = append(granted, &c14grant{m, p.procs})
				pending = append(pending[:i], pending[i+1:]...)
				t.Count("offers_granted", 1)
			}
		}
	}
	// A queued request that fits on an available machine is granted: when requests stay queued
	// although their requesters are receiving, the manager's own newest state is put to the
	// independent statement of the placement rule (refSchedule over the queue and the healthy
	// machines). If the rule grants, the requesters keep receiving -- generously, the wait ends
	// with the first grant -- and a state that still grants with nothing granted after that is
	// a request that fits on an available machine and is not granted. Nothing else happens
	// meanwhile (the script is the only client), so the manager's state cannot move except by
	// machines starting or stopping, which only a newer snapshot can show.
	grantable := func() (string, bool) {
		snap, ok := w.last()
		if !ok || len(pending) == 0 || snap.QueueLen != len(pending) {
			return "", false
		}
		var reqs []exec.VerifReq
		for _, p := range pending {
			reqs = append(reqs, exec.VerifReq{Priority: p.prio, Procs: p.procs})
		}
		var machs []exec.VerifMach
		for _, m := range snap.Machines {
			if m.Health == "ok" && !killedAddrs[m.Addr] {
				machs = append(machs, exec.VerifMach{MaxTaskProcs: m.MaxTaskProcs, TaskProcs: m.TaskProcs})
			}
		}
		prio, procs, free, ok := refSchedule(reqs, machs)
		if !ok {
			return "", false
		}
		return fmt.Sprintf("request (prio %d, procs %d) fits on a healthy machine with %d free procs; queue=%+v machines=%+v", prio, procs, free, reqs, snap.Machines), true
	}
	mustGrant := func(where string) {
		if _, ok := grantable(); !ok {
			return
		}
		t.Count("grantable_states_followed_up", 1)
		n0 := len(pending)
		for i := 0; i < 100 && len(pending) == n0; i++ {
			recvAll(300 * time.Millisecond)
			if _, ok := grantable(); !ok {
				return
			}
		}
		if desc, ok := grantable(); ok && len(pending) == n0 {
			t.Violate(sig+" fitting-request-not-granted", fmt.Sprintf("%s: after 30 s of receiving on every queued request none was granted although the manager's newest state says: %s", where, desc))
		}
	}
	need := 0
	for _, ev := range c.Events {
		if t.Failed() {
			break
		}
		switch ev.Op {
		case "offer":
			procs := 1 + ev.Procs%capOf
			pending = append(pending, &pend{mgr.Offer(ev.Prio, procs), procs, ev.Prio})
			need += procs
			if need > maxNeed {
				maxNeed = need
			}
			t.Count("offers", 1)
		case "recv":
			recvAll(300 * time.Millisecond)
			mustGrant("recv")
		case "cancel":
			if len(pending) > 0 {
				i := ev.Pick % len(pending)
				// a grant may race with the cancel: try to receive first, briefly
				if m, ok := pending[i].o.Recv(time.Millisecond); ok {
					ledger[m.Addr()] += pending[i].procs
					granted = append(granted, &c14grant{m, pending[i].procs})
				} else {
					pending[i].o.Cancel()
					need -= pending[i].procs
					t.Count("offers_cancelled", 1)
				}
				pending = append(pending[:i], pending[i+1:]...)
			}
		case "cancel-blind":
			// the requester gives up without looking at its channel (as bigmachineExecutor.Run does
			// when its context ends): a request that was never received holds nothing afterwards
			if len(pending) > 0 {
				i := ev.Pick % len(pending)
				pending[i].o.Cancel()
				need -= pending[i].procs
				t.Count("offers_cancelled", 1)
				t.Count("offers_cancelled_without_receiving", 1)
				pending = append(pending[:i], pending[i+1:]...)
			}
		case "pause":
			time.Sleep(50 * time.Millisecond)
		case "done-ok", "done-remote", "done-transport":
			if len(granted) > 0 {
				i := ev.Pick % len(granted)
				g := granted[i]
				granted = append(granted[:i], granted[i+1:]...)
				ledger[g.m.Addr()] -= g.procs // decrement before Done: the ledger never exceeds the true load
				need -= g.procs
				var err error
				switch ev.Op {
				case "done-remote":
					err = berrors.E(berrors.Remote, errors.New("verif: application error"))
				case "done-transport":
					err = berrors.E(berrors.Net, errors.New("verif: transport error"))
				}
				g.m.Done(g.procs, err)
				t.Count("dones_"+ev.Op, 1)
			}
		case "kill":
			if len(granted) > 0 {
				if km := granted[ev.Pick%len(granted)].m; sys.Kill(km.Machine()) {
					killed++
					killedAddrs[km.Addr()] = true
					t.Count("machines_killed", 1)
				}
			}
		}
	}
	// drain: receive what can be granted, return everything, cancel the rest
	for round := 0; round < 40 && (len(pending) > 0 || len(granted) > 0); round++ {
		recvAll(50 * time.Millisecond)
		for _, g := range granted {
			ledger[g.m.Addr()] -= g.procs
			g.m.Done(g.procs, nil)
		}
		granted = nil
		if round == 20 {
			mustGrant("drain")
		}
		if round > 20 {
			for _, p := range pending {
				if m, ok := p.o.Recv(time.Millisecond); ok {
					m.Done(p.procs, nil)
				} else {
					p.o.Cancel()
				}
			}
			pending = nil
		}
	}
	// generous: the manager settles within milliseconds, but on a starved host its goroutine may
	// not run for seconds; a manager that never published its state cannot be judged
	if w.snapshots() == 0 {
		// a history without any request never made the manager's loop turn after this monitor
		// attached (its first turn can precede that): a request cancelled at once makes it turn
		mgr.Offer(0, 1).Cancel()
	}
	snap, ok := w.quiescent(true, 30*time.Second)
	if !ok && w.snapshots() == 0 {
		t.Inconclusive("the manager loop published no state within 30 s")
		return
	}
	if !ok {
		t.Violate(sig+" not-quiescent", fmt.Sprintf("every granted proc was returned and every other request cancelled, but the manager still shows need=%d queue=%d machines=%+v", snap.Need, snap.QueueLen, snap.Machines))
	}
	// stopped machines receive no new work: a machine the script killed must leave the manager's
	// state altogether (whatever queue it was in when it stopped: healthy or on probation). The wait is
	// generous and ends as soon as the machine is gone; every poke makes the manager's loop turn.
	for addr := range killedAddrs {
		gone := false
		var health string
		for i := 0; i < 3000 && !gone; i++ {
			w.mu.Lock()
			gone = true
			for _, s := range w.lastSnap {
				for _, m := range s.Machines {
					if m.Addr == addr {
						gone, health = false, m.Health
					}
				}
			}
			w.mu.Unlock()
			if !gone {
				time.Sleep(10 * time.Millisecond)
				if i%20 == 19 {
					mgr.Offer(0, 1).Cancel()
				}
			}
		}
		if !gone {
			t.Violate(sig+" stopped-machine-still-managed health="+health, fmt.Sprintf("machine %s was killed (it is stopped) but the manager still keeps it, in state %q, 30 s and many loop turns later: it counts towards capacity and can be handed work again", addr, health))
		} else {
			t.Count("killed_machines_seen_leaving_the_manager", 1)
		}
	}
	// no more machines than demand and the parallelism limit justify
	w.mu.Lock()
	started := len(w.machines)
	// machines that were managed at some point and are not any more were lost (killed by the
	// script, or dropped by bigmachine's keepalive on a loaded host): each justifies a replacement
	lost := 0
	for addr := range w.machines {
		still := false
		for _, m := range snap.Machines {
			still = still || m.Addr == addr
		}
		if !still {
			lost++
		}
	}
	w.mu.Unlock()
	if lost < killed {
		lost = killed
	}
	lim := maxNeed
	if c.MaxP < lim {
		lim = c.MaxP
	}
	allowed := (lim+capOf-1)/capOf + lost
	if c.MachProcs*int(c.MaxLoad*100+0.5)/100 < 1 {
		// a max-load share below one proc: a task takes a whole machine, and the parallelism limit
		// counts the machine's procs (docs/parallelism.md)
		if byP := (c.MaxP+c.MachProcs-1)/c.MachProcs + lost; byP < allowed {
			allowed = byP
		}
	}
	if maxNeed > 0 && started > allowed {
		t.Violate(sig+" too-many-machines", fmt.Sprintf("%d machines were started; peak demand %d procs, parallelism %d, %d procs per machine, %d machines lost justify at most %d", started, maxNeed, c.MaxP, capOf, lost, allowed))
	}
	w.report(t, sig)
	t.Count("live_histories", 1)
	t.Count("machines_started", int64(started))
	if len(c.Events) > 0 {
		t.Nontrivial("")
	}
}

// ---------------------------------------------------------------- (c) end to end

type c14e2e struct {
	Kind string   `json:"kind"`
	Conf sessConf `json:"conf"`
	Spec Spec     `json:"spec"`
	Fail string   `json:"fail"` // "", panic, temporary, kill
}

func runC14e2e(t *vf.T, c c14e2e) {
	sp := c.Spec
	sp.Run = fmt.Sprintf("c14-%d", t.Index())
	defer probes.Delete(sp.Run)
	sig := "e2e exec=" + c.Conf.Kind + " exit=" + c.Fail
	if c.Conf.Kind == "local" {
		// local mode: at most Parallelism tasks at once, an exclusive task alone. The gauge lives in
		// the user functions (they run inside tasks).
		ls := startSession(c.Conf)
		defer ls.Close()
		sp.Delay = 200
		out := runSpec(ls, sp, [2]bigslice.Slice{}, true, 120*time.Second)
		if out.TimedOut {
			t.Inconclusive("watchdog")
			return
		}
		pr := probeFor(sp.Run)
		maxAct, exclViol := atomic.LoadInt64(&pr.maxAct), atomic.LoadInt64(&pr.exclViol)
		if int(maxAct) > c.Conf.P {
			t.Violate("local too-many-tasks-at-once", fmt.Sprintf("%d user functions of different tasks were running at once with Parallelism(%d)", maxAct, c.Conf.P))
		}
		if exclViol > 0 {
			t.Violate("local exclusive-not-alone", fmt.Sprintf("%d times a user function ran while an Exclusive task was running", exclViol))
		}
		t.Max(fmt.Sprintf("max_concurrent_tasks_p%d", c.Conf.P), maxAct)
		t.Count("local_runs", 1)
		t.Nontrivial("")
		return
	}
	w := c14install(nil)
	var actions []ipAction
	switch c.Fail {
	case "kill":
		actions = append(actions, ipAction{Method: "Worker.Run", Ordinal: 1, When: "after", What: "kill-target"})
	case "commit-kill":
		// the machine holding a machine-combiner buffer dies just before it is asked to commit
		actions = append(actions, ipAction{Method: "Worker.CommitCombiner", Ordinal: 0, When: "before", What: "kill-target"})
	}
	conf := c.Conf
	conf.Keepalive = 50
	ls := startSession(conf, actions...)
	defer ls.Close()
	switch c.Fail {
	case "panic":
		sp.Fail = &FailSpec{Node: 1, Mode: "panic", AtCall: 3, Persist: true, Msg: "verif-c14"}
	case "temporary":
		sp.Fail = &FailSpec{Node: 0, Mode: "temporary", AtCall: 1, Persist: true, Msg: "verif-c14"}
	}
	out := runSpec(ls, sp, [2]bigslice.Slice{}, true, 120*time.Second)
	if out.TimedOut {
		t.Inconclusive("watchdog")
		return
	}
	// After a failed run, tasks of the run that were still waiting for a machine stay queued (Eval
	// returns at the first error); they hold no procs. After a successful run nothing may remain.
	snap, ok := w.quiescent(out.RunErr == nil, 30*time.Second)
	if !ok && w.snapshots() == 0 {
		t.Inconclusive("the manager loop published no state within 30 s")
		return
	}
	if !ok {
		t.Violate(sig+" procs-leaked", fmt.Sprintf("Run returned (err=%v) but the manager still shows need=%d queued-procs=%d machines=%+v", out.RunErr, snap.Need, snap.QueueProcs, snap.Machines))
	}
	w.report(t, sig)
	t.Count("e2e_runs", 1)
	t.Seen("exit_paths", c.Fail)
	t.Nontrivial("")
}

func runC14(r *vf.Runner) {
	// (a) exhaustive placement
	mr, mm := 2, 3
	if !r.Quick() {
		mr, mm = 4, 3
	}
	// one case per choice of the first request (or none), so that the enumeration spreads over batches
	for first := -1; first < 12; first++ {
		first := first
		r.Case(map[string]any{"kind": "placement", "first_request": first, "max_requests": mr, "max_machines": mm}, func(t *vf.T) { runC14sched(t, mr, mm, first) })
	}
	// (b) live manager histories
	rnd := r.Rand("c14")
	n := 40
	if !r.Quick() {
		n = 800
	}
	ops := []string{"offer", "offer", "offer", "recv", "cancel", "cancel-blind", "done-ok", "done-ok", "done-remote", "done-transport", "kill", "recv"}
	// fixed: a request queued behind a full machine, capacity freed, the requester gone without receiving
	for _, mp := range []int{1, 2, 4} {
		c := c14live{Kind: "live", MachProcs: mp, MaxLoad: 1, MaxP: mp, Events: []c14ev{
			{Op: "offer", Procs: mp - 1}, {Op: "recv"}, {Op: "offer", Procs: mp - 1, Prio: 1}, {Op: "offer", Procs: 0}, {Op: "pause"},
			{Op: "done-ok", Pick: 0}, {Op: "pause"}, {Op: "cancel-blind", Pick: 0}, {Op: "pause"}, {Op: "cancel-blind", Pick: 0}, {Op: "offer", Procs: mp - 1}, {Op: "recv"}}}
		r.Case(c, func(t *vf.T) { runC14live(t, c) })
	}
	// fixed: a machine that stops in every situation the manager distinguishes: healthy and idle,
	// healthy and loaded, on probation (a task on it ended with a transport error) with and without
	// further tasks
	for _, mp := range []int{2, 4} {
		for _, evs := range [][]c14ev{
			{{Op: "offer"}, {Op: "offer"}, {Op: "recv"}, {Op: "done-transport", Pick: 0}, {Op: "pause"}, {Op: "kill", Pick: 0}, {Op: "pause"}, {Op: "offer"}, {Op: "recv"}},
			{{Op: "offer"}, {Op: "offer"}, {Op: "recv"}, {Op: "kill", Pick: 0}, {Op: "pause"}, {Op: "offer"}, {Op: "recv"}},
			{{Op: "offer"}, {Op: "offer"}, {Op: "recv"}, {Op: "done-transport", Pick: 1}, {Op: "done-remote", Pick: 0}, {Op: "offer"}, {Op: "recv"}, {Op: "kill", Pick: 0}, {Op: "pause"}, {Op: "offer"}, {Op: "recv"}},
		} {
			c := c14live{Kind: "live", MachProcs: mp, MaxLoad: 1, MaxP: mp, Events: evs}
			r.Case(c, func(t *vf.T) { runC14live(t, c) })
		}
	}
	// fixed: two machines filled with one-proc tasks; one task ends (ok, application error,
	// transport error), on either machine and in either position; a request queued behind the full
	// machines must then be granted where the room is (a transport error puts the machine on
	// probation: then nothing is available and nothing is asked)
	for _, mp := range []int{2, 3} {
		for _, end := range []string{"done-ok", "done-remote", "done-transport"} {
			for pick := 0; pick < 2*mp; pick++ {
				var evs []c14ev
				for i := 0; i < 2*mp; i++ {
					evs = append(evs, c14ev{Op: "offer"})
				}
				evs = append(evs, c14ev{Op: "recv"}, c14ev{Op: "offer"}, c14ev{Op: "pause"}, c14ev{Op: end, Pick: pick}, c14ev{Op: "pause"}, c14ev{Op: "recv"})
				c := c14live{Kind: "live", MachProcs: mp, MaxLoad: 1, MaxP: 2 * mp, Events: evs}
				r.Case(c, func(t *vf.T) {
					runC14live(t, c)
					t.Count("freed_room_histories", 1)
				})
			}
		}
	}
	for i := 0; i < n; i++ {
		c := c14live{Kind: "live", MachProcs: rnd.Pick(1, 2, 3, 4), MaxLoad: []float64{0.3, 0.5, 0.9, 0.95, 1}[rnd.Intn(5)], MaxP: rnd.Pick(1, 3, 8)}
		for j, k := 0, 3+rnd.Intn(25); j < k; j++ {
			c.Events = append(c.Events, c14ev{Op: ops[rnd.Intn(len(ops))], Prio: rnd.Intn(3), Procs: rnd.Intn(4), Pick: rnd.Intn(8)})
		}
		r.Case(c, func(t *vf.T) { runC14live(t, c) })
	}
	// (c) end to end
	src := PNode{Op: "readerfunc", Shards: 6, Rows: 40, Out: []string{"int", "int64"}, Salt: 3, Mod: 9, Chunks: []int{7}}
	prog := func(pragmas ...string) Spec {
		s := src
		m := PNode{Op: "map", In: []int{0}, Out: []string{"int", "int64"}, Src: []int{0, 1}}
		if len(pragmas) > 0 {
			s.Pragma = pragmas[0]
		}
		if len(pragmas) > 1 {
			m.Pragma = pragmas[1]
		}
		return Spec{Nodes: []PNode{s, m, {Op: "reduce", In: []int{1}, Fold: "sum"}}}
	}
	for _, p := range []int{1, 2, 4} {
		for _, pr := range [][]string{{}, {"exclusive"}, {"procs2"}, {"", "exclusive"}} {
			c := c14e2e{Kind: "e2e", Conf: sessConf{Kind: "local", P: p}, Spec: prog(pr...)}
			r.Case(c, func(t *vf.T) { runC14e2e(t, c) })
		}
	}
	for _, fail := range []string{"", "panic", "temporary", "kill", "commit-kill"} {
		for _, pr := range [][]string{{}, {"exclusive"}, {"procs2"}} {
			for _, comb := range []bool{false, true} {
				if r.Quick() && comb && fail == "kill" {
					continue
				}
				if fail == "commit-kill" && !comb {
					continue
				}
				c := c14e2e{Kind: "e2e", Conf: sessConf{Kind: "bigmachine", P: 4, MachProcs: 2, MaxLoad: 0.95, Combiners: comb}, Spec: prog(pr...), Fail: fail}
				r.Case(c, func(t *vf.T) { runC14e2e(t, c) })
			}
		}
	}
}
