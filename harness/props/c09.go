package props

import (
	"context"
	"fmt"
	"os"
	"path/filepath"
	"sort"

	"github.com/grailbio/bigslice/exec"
	"github.com/grailbio/bigslice/frame"
	"github.com/grailbio/bigslice/slicefunc"
	"verifharness/internal/vf"
)

// C09 — combining buffers hold one correctly folded value per key at any size.

func init() { Registry["C09"] = runC09 }

type c09case struct {
	Kind    string `json:"kind"` // exhaustive | frame | combiner
	Schema  int    `json:"schema"`
	Fold    string `json:"fold"` // sum | xor | min
	Alpha   int    `json:"alphabet,omitempty"`
	MaxLen  int    `json:"maxlen,omitempty"`
	Collide bool   `json:"collide,omitempty"`
	Cap     int    `json:"cap"`
	Scratch int    `json:"scratch"`
	Rows    int    `json:"rows,omitempty"`
	Keys    int    `json:"keys,omitempty"`
	Target  int    `json:"target,omitempty"`
	Feed    []int  `json:"feed,omitempty"` // sizes of the frames fed (cycled)
	// NoCompact: no compaction in mid stream, so that a hot key is combined into its slot very
	// many times in a row (per-slot bookkeeping must not wrap)
	NoCompact bool   `json:"nocompact,omitempty"`
	Data      uint64 `json:"dataseed"`
}

// key schemas: prefix columns followed by one int64 value column
var c09schemas = []schema{
	{[]string{"int", "int64"}, 1},
	{[]string{"string", "int64"}, 1},
	{[]string{"uint8", "bytes", "int64"}, 2},
	{[]string{"bool", "int16", "int64"}, 2},
	{[]string{"float64", "int64"}, 1},
}

func foldFn(name string) (slicefunc.Func, func(a, b int64) int64) {
	var f func(a, b int64) int64
	switch name {
	case "xor":
		f = func(a, b int64) int64 { return a ^ b }
	case "min":
		f = func(a, b int64) int64 {
			if b < a {
				return b
			}
			return a
		}
	default:
		f = func(a, b int64) int64 { return a + b }
	}
	fn, _ := slicefunc.Of(f)
	return fn, f
}

// collidingInts returns n ints whose combining-frame hash agrees in the low bits (mask 7).
func collidingInts(n int) []int {
	var out []int
	want := -1
	for k := 0; len(out) < n; k++ {
		f := frame.Slices([]int{k})
		h := int(f.HashWithSeed(0, exec.VerifHashSeed)) & 7
		if want < 0 {
			want = h
		}
		if h == want {
			out = append(out, k)
		}
	}
	return out
}

type c09model struct {
	ts     []*colType
	prefix int
	fold   func(a, b int64) int64
	m      map[string]row
}

func (m *c09model) feed(rows []row) {
	for _, r := range rows {
		k := rowStr(r[:m.prefix])
		if cur, ok := m.m[k]; ok {
			cur[len(cur)-1] = m.fold(cur[len(cur)-1].(int64), r[len(r)-1].(int64))
		} else {
			m.m[k] = cloneRow(r)
		}
	}
}

func (m *c09model) sorted() []row {
	var out []row
	for _, r := range m.m {
		out = append(out, r)
	}
	sort.Slice(out, func(i, j int) bool { return cmpKey(m.ts, m.prefix, out[i], out[j]) < 0 })
	return out
}

// feedView returns a frame holding rows as a view at a non-zero offset of a larger frame.
func feedView(ts []*colType, rows []row, prefix int, rnd *vf.Rand) frame.Frame {
	pad := append([]row{genRow(ts, rnd, false)}, rows...)
	pad = append(pad, genRow(ts, rnd, false))
	f, _ := frameOf(ts, pad, prefix)
	return f.Slice(1, 1+len(rows))
}

func checkCompact(t *vf.T, sig string, m *c09model, got []row, ordered bool, ctxt string) bool {
	want := m.sorted()
	if !ordered {
		sort.SliceStable(got, func(i, j int) bool { return cmpKey(m.ts, m.prefix, got[i], got[j]) < 0 })
	} else {
		for i := 1; i < len(got); i++ {
			if cmpKey(m.ts, m.prefix, got[i-1], got[i]) >= 0 {
				t.Violate(sig+" not-ascending", fmt.Sprintf("%s: keys %d,%d not strictly ascending: %s %s", ctxt, i-1, i, rowStr(got[i-1]), rowStr(got[i])))
				return false
			}
		}
	}
	if d := rowsDiff(got, want, true); d != "" {
		t.Violate(sig+" contents", fmt.Sprintf("%s: %s", ctxt, d))
		return false
	}
	return true
}

func runC09case(t *vf.T, c c09case) {
	sc := c09schemas[c.Schema]
	ts := sc.types()
	prefix := sc.MaxKey
	typ := sc.sliceType(prefix)
	fn, fold := foldFn(c.Fold)
	rnd := vf.NewRand(c.Data)
	switch c.Kind {
	case "exhaustive":
		// all key sequences over an alphabet up to a length: every probe sequence, doubling and
		// compaction order of a small table
		var alpha []row
		if c.Collide && c.Schema == 0 {
			for _, k := range collidingInts(c.Alpha) {
				alpha = append(alpha, row{k, int64(0)})
			}
		} else {
			seen := map[string]bool{}
			for len(alpha) < c.Alpha {
				r := genRow(ts, rnd, false)
				if k := rowStr(r[:prefix]); !seen[k] {
					seen[k] = true
					alpha = append(alpha, r)
				}
			}
		}
		seq := make([]int, 0, c.MaxLen)
		var rec func()
		nseq := 0
		bad := false
		rec = func() {
			if bad {
				return
			}
			if len(seq) > 0 {
				nseq++
				cf := exec.VerifMakeCombiningFrame(typ, fn, c.Cap, c.Scratch)
				m := &c09model{ts: ts, prefix: prefix, fold: fold, m: map[string]row{}}
				rows := make([]row, len(seq))
				for i, a := range seq {
					rows[i] = cloneRow(alpha[a])
					rows[i][len(ts)-1] = int64(1 + i*7 + a)
				}
				// feed in two frames to cross the scratch boundary differently
				cut := len(rows) / 2
				for _, part := range [][]row{rows[:cut], rows[cut:]} {
					if len(part) == 0 {
						continue
					}
					cf.Combine(feedView(ts, part, prefix, rnd))
					m.feed(part)
				}
				if cf.Len() != len(m.m) {
					t.Violate("frame len", fmt.Sprintf("seq %v cap %d scratch %d: Len()=%d, distinct keys %d", seq, c.Cap, c.Scratch, cf.Len(), len(m.m)))
					bad = true
					return
				}
				if cf.Cap() > c.Cap {
					t.Count("table_resizes", 1)
				}
				out := cf.Compact()
				if !checkCompact(t, "frame", m, frameRows(out), false, fmt.Sprintf("seq %v cap %d scratch %d", seq, c.Cap, c.Scratch)) {
					bad = true
					return
				}
			}
			if len(seq) == c.MaxLen {
				return
			}
			for a := 0; a < c.Alpha; a++ {
				seq = append(seq, a)
				rec()
				seq = seq[:len(seq)-1]
			}
		}
		rec()
		t.Count("key_sequences", int64(nseq))
		t.Nontrivial("")
	case "frame":
		cf := exec.VerifMakeCombiningFrame(typ, fn, c.Cap, c.Scratch)
		m := &c09model{ts: ts, prefix: prefix, fold: fold, m: map[string]row{}}
		keys := make([]row, c.Keys)
		for i := range keys {
			keys[i] = genRow(ts, rnd, false)
		}
		left := c.Rows
		for call := 0; left > 0; call++ {
			n := c.Feed[call%len(c.Feed)]
			if n > left {
				n = left
			}
			left -= n
			rows := make([]row, n)
			for i := range rows {
				// skewed: low indices much more frequent
				k := rnd.Intn(1 + rnd.Intn(c.Keys))
				rows[i] = cloneRow(keys[k])
				rows[i][len(ts)-1] = int64(rnd.Intn(1000)) - 300
			}
			cf.Combine(feedView(ts, rows, prefix, rnd))
			m.feed(rows)
			// compaction in the middle of the stream, then continue (as the spilling combiner does)
			if !c.NoCompact && rnd.Chance(0.1) {
				out := cf.Compact()
				if !checkCompact(t, "frame", m, frameRows(out), false, "mid-stream compaction") {
					return
				}
				m.m = map[string]row{}
				t.Count("compactions", 1)
			}
		}
		if cf.Cap() > c.Cap {
			t.Count("table_resizes", 1)
			t.Nontrivial("")
		}
		checkCompact(t, "frame", m, frameRows(cf.Compact()), false, "final compaction")
		t.Count("rows_fed", int64(c.Rows))
	case "combiner":
		setFlag("bigslice-internal-default-chunk-rows", c.Cap)
		defer setFlag("bigslice-internal-default-chunk-rows", 128)
		before := len(spillDirs())
		cb, err := exec.VerifNewCombiner(typ, "verif", fn, c.Target)
		if err != nil {
			t.Violate("combiner new", err.Error())
			return
		}
		m := &c09model{ts: ts, prefix: prefix, fold: fold, m: map[string]row{}}
		keys := make([]row, c.Keys)
		for i := range keys {
			keys[i] = genRow(ts, rnd, false)
		}
		ctx := context.Background()
		left := c.Rows
		for call := 0; left > 0; call++ {
			n := c.Feed[call%len(c.Feed)]
			if n > left {
				n = left
			}
			left -= n
			rows := make([]row, n)
			for i := range rows {
				k := rnd.Intn(1 + rnd.Intn(c.Keys))
				rows[i] = cloneRow(keys[k])
				rows[i][len(ts)-1] = int64(rnd.Intn(1000)) - 300
			}
			if err := cb.Combine(ctx, feedView(ts, rows, prefix, rnd)); err != nil {
				t.Violate("combiner combine-error", err.Error())
				return
			}
			m.feed(rows)
		}
		nspill := 0
		for _, d := range spillDirs() {
			nspill += countFiles(d)
		}
		if c.Data%5 == 0 {
			// discard path
			if err := cb.Discard(); err != nil {
				t.Violate("combiner discard-error", err.Error())
			}
		} else {
			r, err := cb.Reader()
			if err != nil {
				t.Violate("combiner reader-error", err.Error())
				return
			}
			res := driveReader(ts, r, []int{1 + int(c.Data%200)}, rnd, c.Rows*2+50)
			if res.bad != "" {
				t.Violate("combiner "+res.bad, res.what)
				return
			}
			if res.err != nil {
				t.Violate("combiner read-error", res.err.Error())
				return
			}
			if !checkCompact(t, "combiner", m, res.rows, true, fmt.Sprintf("%d rows, %d keys, target %d, %d spill files", c.Rows, c.Keys, c.Target, nspill)) {
				return
			}
		}
		if n := len(spillDirs()); n > before {
			t.Violate("combiner spill-files-left", fmt.Sprintf("%d spiller directories left after the reader was drained / Discard: %v", n-before, spillDirs()))
			return
		}
		t.Count("spill_dir_checks", 1)
		t.Count("spill_files", int64(nspill))
		t.Count("rows_fed", int64(c.Rows))
		if nspill > 0 {
			t.Count("combiners_that_spilled", 1)
			t.Nontrivial("")
		}
	}
}

func runC09(r *vf.Runner) {
	run := func(c c09case) { r.Case(c, func(t *vf.T) { runC09case(t, c) }) }
	type ex struct{ alpha, maxlen int }
	exs := []ex{{2, 8}, {3, 6}, {4, 5}, {6, 4}}
	if !r.Quick() {
		exs = []ex{{2, 10}, {3, 8}, {4, 7}, {5, 6}, {6, 5}}
	}
	for si := range c09schemas {
		for _, e := range exs {
			for _, cp := range []int{1, 2, 4, 8} {
				for _, scr := range []int{1, 2, 8} {
					for _, fold := range []string{"sum", "min"} {
						if r.Quick() && si > 0 && (cp+scr)%3 != 0 {
							continue
						}
						run(c09case{Kind: "exhaustive", Schema: si, Fold: fold, Alpha: e.alpha, MaxLen: e.maxlen, Cap: cp, Scratch: scr, Data: uint64(si*100 + e.alpha)})
						if si == 0 {
							run(c09case{Kind: "exhaustive", Schema: si, Fold: fold, Alpha: e.alpha, MaxLen: e.maxlen, Collide: true, Cap: cp, Scratch: scr, Data: uint64(e.alpha)})
						}
					}
				}
			}
		}
	}
	rnd := r.Rand("c09")
	n := 150
	if !r.Quick() {
		n = 4000
	}
	folds := []string{"sum", "xor", "min"}
	for i := 0; i < n; i++ {
		c := c09case{Kind: "frame", Schema: rnd.Intn(len(c09schemas)), Fold: folds[rnd.Intn(3)], Cap: rnd.Pick(1, 2, 4, 8, 128), Scratch: rnd.Pick(1, 2, 8, 128),
			Rows: rnd.Pick(10, 100, 1000, 10000), Keys: rnd.Pick(1, 3, 17, 200, 3000), Data: rnd.Uint64()}
		for j, k := 0, 1+rnd.Intn(3); j < k; j++ {
			c.Feed = append(c.Feed, rnd.Pick(1, 2, 7, 128, 129, 1000))
		}
		run(c)
	}
	// hot keys: one key fed 2^16 times and more without a compaction in between
	for hi, rows := range []int{65535, 65536, 65537, 70000, 140000} {
		for _, keys := range []int{1, 3} {
			if r.Quick() && (hi+keys)%2 == 0 && rows != 65536 {
				continue
			}
			run(c09case{Kind: "frame", Schema: 0, Fold: "sum", Cap: 8, Scratch: 128, Rows: rows, Keys: keys, Feed: []int{1000}, NoCompact: true, Data: uint64(rows + keys)})
		}
	}
	for i := 0; i < n; i++ {
		c := c09case{Kind: "combiner", Schema: rnd.Intn(len(c09schemas)), Fold: folds[rnd.Intn(3)], Cap: rnd.Pick(1, 2, 8, 128),
			Rows: rnd.Pick(100, 1000, 10000, 40000), Keys: rnd.Pick(1, 5, 60, 700, 5000), Target: 1 + i%50, Data: rnd.Uint64()}
		if i%7 == 0 {
			c.Target = rnd.Pick(100, 1000, 100000)
		}
		if r.Quick() && c.Rows > 10000 {
			c.Rows = 10000
		}
		for j, k := 0, 1+rnd.Intn(3); j < k; j++ {
			c.Feed = append(c.Feed, rnd.Pick(1, 2, 7, 128, 129, 1000))
		}
		run(c)
	}
}

func countFiles(dir string) int {
	n := 0
	filepath.Walk(filepath.Join(os.TempDir(), dir), func(p string, info os.FileInfo, err error) error {
		if err == nil && !info.IsDir() {
			n++
		}
		return nil
	})
	return n
}
