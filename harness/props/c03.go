package props

import (
	"bytes"
	"context"
	"errors"
	"fmt"
	"net/http"
	"runtime"
	"sort"
	"strings"
	"sync"
	"sync/atomic"
	"time"

	"github.com/grailbio/base/eventlog"
	"github.com/grailbio/bigslice/exec"
	"github.com/grailbio/bigslice/sliceio"
	"verifharness/internal/vf"
)

// C03 — evaluator: tasks start only when ready; success only when done; always progress.
// exec.Eval is driven with an adversarial Executor (DESIGN §3.6): every Run(task) hand-off is
// parked and a scripted adversary decides the outcomes one event at a time.

func init() { Registry["C03"] = runC03 }

// c03stage describes one stage of a task graph.
type c03stage struct {
	Shards  int   `json:"shards"`
	Deps    []int `json:"deps"`    // earlier stages
	Shuffle []int `json:"shuffle"` // which of Deps are shuffle dependencies (phase groups); others are narrow (same shard count required)
	Init    []int `json:"init"`    // initial state per shard: 0 INIT, 1 OK, 2 LOST, 3 ERR
}

type c03step struct {
	Pick    int    `json:"pick"`    // index into the sorted list of parked tasks (mod len)
	Outcome string `json:"outcome"` // ok lost err | lose-done (mark a completed task LOST instead)
}

type c03case struct {
	Stages []c03stage `json:"stages"`
	Roots  []int      `json:"roots"` // root stages of the (first) evaluation
	Roots2 []int      `json:"roots2,omitempty"`
	Script []c03step  `json:"script"`
	Seed   uint64     `json:"seed"`
}

type c03task struct {
	t        *exec.Task
	stage    int
	shard    int
	name     string
	parked   chan string // outcome delivered by the adversary
	inflight bool
	handed   bool // was handed to the executor at least once
	lostRun  int  // consecutive LOST outcomes delivered
	// mayRun is the longest run of consecutive losses the evaluator may have counted: a task that
	// completes and is lost spontaneously before the evaluator looked at it was, as far as the
	// evaluator can tell, lost again (okBefore: mayRun before that completion; -1: not pending)
	mayRun   int
	okBefore int
	timeline []c03ev
}

type c03ev struct {
	ts    int64
	state exec.TaskState
}

type c03exec struct {
	mu     sync.Mutex
	clock  int64
	tasks  map[*exec.Task]*c03task
	parked map[*c03task]bool
	events int64
	viol   []string
	viosig []string
	spont  bool // the history contains a spontaneous loss of a completed task
	nevals int  // number of concurrent evaluators
	// mayGiveUp: some task may have been seen lost five times in a row by the evaluator (see mayRun)
	mayGiveUp bool
	handoff   int
	resub     int
	lastRet   map[*c03task]int64
	start     int64
	elog      []string // logical-time event log (kept for witnesses)
	active    int64    // Run calls in progress
}

func (x *c03exec) logf(format string, args ...interface{}) {
	if len(x.elog) < 400 {
		x.elog = append(x.elog, fmt.Sprintf("%d:", x.clock)+fmt.Sprintf(format, args...))
	}
}

func (x *c03exec) Name() string                              { return "verif-adversary" }
func (x *c03exec) Start(*exec.Session) (shutdown func())     { return func() {} }
func (x *c03exec) Reader(*exec.Task, int) sliceio.ReadCloser { return nil }
func (x *c03exec) Discard(context.Context, *exec.Task)       {}
func (x *c03exec) Eventer() eventlog.Eventer                 { return eventlog.Nop{} }
func (x *c03exec) HandleDebug(*http.ServeMux)                {}

func (x *c03exec) tick() int64 { return atomic.AddInt64(&x.clock, 1) }

func (x *c03exec) violate(sig, what string) {
	x.viol = append(x.viol, what)
	x.viosig = append(x.viosig, sig)
}

// wasOK tells whether task d was OK at some time in [from, now].
func (x *c03exec) wasOK(d *c03task, from int64) bool {
	st := exec.TaskInit
	for _, e := range d.timeline {
		if e.ts > from {
			if st == exec.TaskOk {
				return true
			}
		}
		st = e.state
		if e.ts >= from && st == exec.TaskOk {
			return true
		}
	}
	return st == exec.TaskOk
}

func (x *c03exec) setState(ct *c03task, s exec.TaskState, err error) {
	// Record and apply under the monitor's lock: a hand-off (Run takes the same lock) is then
	// judged against a timeline that agrees with what the evaluator could have read. Recording
	// first and applying after the unlock let a preempted goroutine leave the real state behind
	// its record for arbitrarily long - the evaluator then read OK where the timeline said LOST.
	x.mu.Lock()
	ct.timeline = append(ct.timeline, c03ev{x.tick(), s})
	x.logf("%s=%s", ct.name, s)
	if s == exec.TaskErr {
		ct.t.Error(err)
	} else {
		ct.t.Set(s)
	}
	x.mu.Unlock()
}

// Run is the hand-off from the evaluator.
func (x *c03exec) Run(t *exec.Task) {
	atomic.AddInt64(&x.active, 1)
	defer atomic.AddInt64(&x.active, -1)
	x.mu.Lock()
	ct := x.tasks[t]
	x.tick()
	atomic.AddInt64(&x.events, 1)
	if ct == nil {
		x.violate("handoff-of-unknown-task", fmt.Sprintf("task %s is not part of the graph", t.Name))
		x.mu.Unlock()
		return
	}
	x.handoff++
	x.logf("handoff(%s)", ct.name)
	if ct.inflight {
		x.violate("task-handed-out-twice-at-once", fmt.Sprintf("task %s was handed to the executor while an earlier hand-off had not completed", ct.name))
	}
	from := x.start
	if r, ok := x.lastRet[ct]; ok {
		// With one evaluator a hand-off after a return of the task follows a fresh look at its
		// dependencies, made after that return. With two evaluators the hand-off can come from the
		// one that decided long ago (when the dependency was OK), never ran the task itself and
		// only now gets to act: the property speaks of dependencies that have completed, and
		// the decision time is not observable at this boundary, so the window then starts at
		// the beginning of the history.
		if x.nevals <= 1 {
			from = r
		}
		x.resub++
	}
	for _, d := range t.Deps {
		for i := 0; i < d.NumTask(); i++ {
			dt := x.tasks[d.Task(i)]
			ok := false
			if x.spont {
				ok = x.wasOK(dt, from)
			} else {
				ok = len(dt.timeline) > 0 && dt.timeline[len(dt.timeline)-1].state == exec.TaskOk
			}
			if !ok {
				last := "INIT"
				if len(dt.timeline) > 0 {
					last = dt.timeline[len(dt.timeline)-1].state.String()
				}
				x.violate("handoff-with-unfinished-dependency dep="+last, fmt.Sprintf("task %s was handed to the executor although its dependency %s is %s; events: %v", ct.name, dt.name, last, x.elog))
			}
		}
	}
	ct.inflight = true
	ct.handed = true
	ct.okBefore = -1
	// handing off a dependent proves that the evaluator has seen the completion of each dependency
	// (and has reset its count of consecutive losses)
	for _, d := range t.Deps {
		for i := 0; i < d.NumTask(); i++ {
			if dt := x.tasks[d.Task(i)]; dt != nil {
				dt.okBefore = -1
			}
		}
	}
	x.parked[ct] = true
	x.mu.Unlock()
	// the executor contract: WAITING -> RUNNING -> final
	t.Set(exec.TaskRunning)
	outcome := <-ct.parked
	x.mu.Lock()
	ct.inflight = false
	x.lastRet[ct] = x.tick()
	x.mu.Unlock()
	switch outcome {
	case "ok":
		ct.lostRun = 0
		x.mu.Lock()
		ct.okBefore, ct.mayRun = ct.mayRun, 0
		x.mu.Unlock()
		x.setState(ct, exec.TaskOk, nil)
	case "lost":
		ct.lostRun++
		x.mu.Lock()
		ct.mayRun++
		ct.okBefore = -1
		if ct.mayRun >= 5 {
			x.mayGiveUp = true
		}
		x.mu.Unlock()
		x.setState(ct, exec.TaskLost, nil)
	case "err":
		x.setState(ct, exec.TaskErr, errC03)
	}
	atomic.AddInt64(&x.events, 1)
}

var errC03 = errors.New("verif: scripted fatal task error")

func buildC03(c c03case) (*c03exec, [][]*c03task) {
	x := &c03exec{tasks: map[*exec.Task]*c03task{}, parked: map[*c03task]bool{}, lastRet: map[*c03task]int64{}}
	stages := make([][]*c03task, len(c.Stages))
	for si, st := range c.Stages {
		ts := make([]*c03task, st.Shards)
		raw := make([]*exec.Task, st.Shards)
		for sh := 0; sh < st.Shards; sh++ {
			t := &exec.Task{Name: exec.TaskName{Op: fmt.Sprintf("s%d", si), Shard: sh, NumShard: st.Shards}}
			raw[sh] = t
			ts[sh] = &c03task{t: t, stage: si, shard: sh, name: fmt.Sprintf("s%d:%d", si, sh), parked: make(chan string, 1), okBefore: -1}
			x.tasks[t] = ts[sh]
		}
		stages[si] = ts
		// dependencies
		for _, d := range st.Deps {
			shuffle := false
			for _, s := range st.Shuffle {
				if s == d {
					shuffle = true
				}
			}
			dep := stages[d]
			if shuffle {
				// the producer stage becomes a phase group
				grp := make([]*exec.Task, len(dep))
				for i, dt := range dep {
					grp[i] = dt.t
				}
				for _, dt := range dep {
					dt.t.Group = grp
				}
				for sh, t := range raw {
					t.Deps = append(t.Deps, exec.TaskDep{Head: grp[0], Partition: sh})
				}
			} else {
				for sh, t := range raw {
					t.Deps = append(t.Deps, exec.TaskDep{Head: dep[sh%len(dep)].t})
				}
			}
		}
	}
	return x, stages
}

func rootsOf(stages [][]*c03task, idx []int) []*exec.Task {
	var roots []*exec.Task
	for _, si := range idx {
		for _, ct := range stages[si] {
			roots = append(roots, ct.t)
		}
	}
	return roots
}

// c03wedged tells that an earlier case of this process left the harness wedged (see runC03case).
var c03wedged int32

// runC03case runs the history in a goroutine of its own and watches it from outside. The adversary
// records and applies every state change under the monitor's lock (see setState), so an evaluator
// that keeps a task's lock for ever blocks the adversary inside exec.(*Task).Set with the monitor's
// lock held, and with it the loop that drives the history and would look for stalls. The watcher
// needs no lock: it proves that situation from two goroutine profiles (every goroutine of the
// evaluation and of the adversary parked, one of them inside setState on a task's lock, same
// goroutines both times, event counter unchanged) and reports it; the wedged goroutines are left
// behind and the process runs no further cases.
func runC03case(t *vf.T, c c03case) {
	if atomic.LoadInt32(&c03wedged) != 0 {
		t.Inconclusive("an earlier history left the adversary blocked on a task's lock; no further histories are run in this process")
		return
	}
	var cur atomic.Value
	done := make(chan struct{})
	var pv any
	var pstack []byte
	go func() {
		defer close(done)
		defer func() {
			if e := recover(); e != nil {
				pv, pstack = e, stackNow()
			}
		}()
		runC03body(t, c, &cur)
	}()
	tick := time.NewTicker(100 * time.Millisecond)
	defer tick.Stop()
	for {
		select {
		case <-done:
			if pv != nil {
				site := vf.PanicSite(pstack)
				t.Violate("panic:"+site, fmt.Sprintf("panic: %v at %s", pv, site))
			}
			return
		case <-tick.C:
			x, _ := cur.Load().(*c03exec)
			if x == nil {
				continue
			}
			if c03wedgeProof(x) {
				atomic.StoreInt32(&c03wedged, 1)
				t.Violate("stall outcome-blocked-on-task-lock", "the executor cannot record the outcome of a task it was handed: its Set/Error call is blocked on the task's lock, which no goroutine will release (every goroutine of the evaluation is parked in two profiles, no event happens); the task can never complete and any evaluation that shares it waits for ever | "+c03describe(c))
				return
			}
		}
	}
}

// c03wedgeProof: two goroutine profiles 50 ms apart with the same goroutines of the evaluation and of
// the adversary, all parked, one of them in setState inside exec.(*Task) on a mutex, and no event.
func c03wedgeProof(x *c03exec) bool {
	sample := func() (sig string, wedged, ok bool) {
		buf := make([]byte, 4<<20)
		n := runtime.Stack(buf, true)
		var ids []string
		ok = true
		for _, g := range bytes.Split(buf[:n], []byte("\n\n")) {
			s := string(g)
			if !strings.Contains(s, "(*c03exec)") && !strings.Contains(s, "bigslice/exec.") && !strings.Contains(s, "props.runC03body") {
				continue
			}
			head := s
			if i := strings.IndexByte(s, '\n'); i >= 0 {
				head = s[:i]
			}
			state := ""
			if i := strings.IndexByte(head, '['); i >= 0 {
				state = strings.TrimSuffix(head[i+1:], "]:")
				if j := strings.IndexByte(state, ','); j >= 0 {
					state = state[:j]
				}
			}
			parked := false
			for _, p := range c03parkedStates {
				if strings.HasPrefix(state, p) {
					parked = true
				}
			}
			if !parked {
				ok = false
			}
			if strings.Contains(s, "(*c03exec).setState") && strings.Contains(s, "bigslice/exec.(*Task)") && strings.HasPrefix(state, "sync.Mutex.Lock") {
				wedged = true
			}
			ids = append(ids, strings.Fields(head)[1]+state)
		}
		sort.Strings(ids)
		return strings.Join(ids, ";"), wedged, ok
	}
	e0 := atomic.LoadInt64(&x.events)
	s0, w0, ok0 := sample()
	if !w0 || !ok0 {
		return false
	}
	time.Sleep(50 * time.Millisecond)
	s1, w1, ok1 := sample()
	return w1 && ok1 && s0 == s1 && atomic.LoadInt64(&x.events) == e0
}

func runC03body(t *vf.T, c c03case, cur *atomic.Value) {
	quietLogs()
	x, stages := buildC03(c)
	cur.Store(x)
	x.start = x.tick()
	// initial states, as arise when results of earlier invocations are reused
	nonInit := false
	anyErrInit := map[*c03task]bool{}
	for si, st := range c.Stages {
		for sh, ct := range stages[si] {
			if sh < len(st.Init) {
				switch st.Init[sh] {
				case 1:
					x.setState(ct, exec.TaskOk, nil)
					nonInit = true
				case 2:
					x.setState(ct, exec.TaskLost, nil)
					nonInit = true
				case 3:
					x.setState(ct, exec.TaskErr, errC03)
					anyErrInit[ct] = true
					nonInit = true
				}
			}
		}
	}
	type evalRes struct {
		err  error
		done bool
		at   int64
	}
	rootSets := [][]int{c.Roots}
	if len(c.Roots2) > 0 {
		rootSets = append(rootSets, c.Roots2)
	}
	x.nevals = len(rootSets)
	results := make([]*evalRes, len(rootSets))
	var wg sync.WaitGroup
	ctx, cancel := context.WithCancel(context.Background())
	defer cancel()
	for i, rs := range rootSets {
		i, rs := i, rs
		results[i] = &evalRes{}
		wg.Add(1)
		go func() {
			defer wg.Done()
			err := exec.Eval(ctx, x, rootsOf(stages, rs), nil)
			x.mu.Lock()
			results[i].err, results[i].done, results[i].at = err, true, x.tick()
			x.logf("eval%d-returned(%v)", i, err != nil)
			x.mu.Unlock()
			atomic.AddInt64(&x.events, 1)
		}()
	}
	allDone := func() bool {
		x.mu.Lock()
		defer x.mu.Unlock()
		for _, r := range results {
			if !r.done {
				return false
			}
		}
		return true
	}
	// settle waits until the evaluator has (apparently) nothing more to hand off right now
	settle := func() {
		// Spin (yielding) until the event counter has not moved for a while. Declaring quiescence
		// early only changes which interleaving is explored: all verdicts are taken from logical
		// timestamps, and a stall needs the separate proof below.
		last := atomic.LoadInt64(&x.events)
		quiet := 0
		for spins := 0; spins < 2000000 && quiet < 400; spins++ {
			runtime.Gosched()
			if now := atomic.LoadInt64(&x.events); now != last {
				last, quiet = now, 0
			} else {
				quiet++
			}
		}
		time.Sleep(20 * time.Microsecond)
	}
	fatal, nonOK := false, false
	giveUp := false
	step := 0
	stalled := false
	stallKind := ""
	for !allDone() {
		settle()
		if allDone() {
			break
		}
		x.mu.Lock()
		var parked []*c03task
		for ct := range x.parked {
			parked = append(parked, ct)
		}
		x.mu.Unlock()
		sort.Slice(parked, func(i, j int) bool { return parked[i].name < parked[j].name })
		if len(parked) == 0 {
			// nothing is in the executor's hands and the evaluation has not returned: give the
			// evaluator a moment, then attempt the stall proof
			progressed := false
			for i := 0; i < 100 && !progressed; i++ {
				time.Sleep(100 * time.Microsecond)
				x.mu.Lock()
				progressed = len(x.parked) > 0
				x.mu.Unlock()
				progressed = progressed || allDone()
			}
			if !progressed {
				if k := c03stallKind(x, true); k != "" {
					stalled, stallKind = true, k
					break
				}
			}
			continue
		}
		var st c03step
		if step < len(c.Script) {
			st = c.Script[step]
		} else {
			st = c03step{Pick: 0, Outcome: "ok"} // after the script: everything succeeds
		}
		step++
		if st.Outcome == "lose-done" {
			// spontaneous loss of an already completed task (e.g. its machine died)
			var done []*c03task
			for _, ts := range stages {
				for _, ct := range ts {
					if n := len(ct.timeline); n > 0 && ct.timeline[n-1].state == exec.TaskOk && !ct.inflight {
						done = append(done, ct)
					}
				}
			}
			if len(done) > 0 {
				x.mu.Lock()
				x.spont = true
				x.mu.Unlock()
				ct := done[st.Pick%len(done)]
				x.mu.Lock()
				if ct.okBefore >= 0 {
					ct.mayRun = ct.okBefore + 1
					ct.okBefore = -1
					if ct.mayRun >= 5 {
						x.mayGiveUp = true
					}
				}
				x.mu.Unlock()
				x.setState(ct, exec.TaskLost, nil)
				nonOK = true
				atomic.AddInt64(&x.events, 1)
				continue
			}
			st.Outcome = "ok"
		}
		ct := parked[st.Pick%len(parked)]
		switch st.Outcome {
		case "lost":
			nonOK = true
			if ct.lostRun+1 >= 5 {
				giveUp = true
			}
		case "err":
			nonOK = true
			fatal = true
		}
		x.mu.Lock()
		delete(x.parked, ct)
		x.mu.Unlock()
		ct.parked <- st.Outcome
	}
	cancel()
	if !stalled {
		wg.Wait()
	}
	// release whatever is still parked (an evaluation that returned early leaves hand-offs behind)
	x.mu.Lock()
	ran := map[*exec.Task]bool{}
	for tk, ct := range x.tasks {
		ran[tk] = ct.handed
	}
	for ct := range x.parked {
		delete(x.parked, ct)
		ct.parked <- "ok"
	}
	handoffs, resubs := x.handoff, x.resub
	x.mu.Unlock()
	// let the released hand-offs finish so that nothing writes the harness state while the verdicts
	// below read it
	lockHeld := false
	for i := 0; i < 20000 && atomic.LoadInt64(&x.active) > 0; i++ {
		time.Sleep(50 * time.Microsecond)
		if i%2000 == 1999 && !stalled {
			// the released hand-offs record their outcomes on their tasks; one that cannot, because an
			// evaluation that has ended still holds the task's lock, never will
			if c03stallKind(x, false) != "" {
				lockHeld = true
				break
			}
		}
	}
	sigs := map[string]bool{}
	for i, w := range x.viol {
		if !sigs[x.viosig[i]] {
			sigs[x.viosig[i]] = true
			t.Violate(x.viosig[i], w+" | "+c03describe(c))
		}
	}
	if stalled && stallKind == "outcome-blocked-on-task-lock" {
		t.Violate("stall outcome-blocked-on-task-lock", "the evaluation has not returned and the executor cannot record the outcome of a task: its Set/Error call is blocked on the task's lock, every goroutine of the evaluation is parked in two profiles and no event happens | "+c03describe(c))
		return
	}
	if stalled {
		t.Violate("stall", "the evaluation has not returned, no task is in the executor's hands and no event happens: two goroutine profiles show the evaluator parked | "+c03describe(c))
		return
	}
	if lockHeld {
		t.Violate("task-lock-held-after-evaluation-ended", "every evaluation has returned, but the executor cannot record the outcome of a task it was handed: its Set/Error call stays blocked on the task's lock (two identical goroutine profiles, nothing runnable) - the task can never complete and any later evaluation that shares it waits for ever | "+c03describe(c))
		return
	}
	// final verdicts per evaluation
	errInit := len(anyErrInit) > 0
	for i, r := range results {
		roots := rootsOf(stages, rootSets[i])
		if r.err == nil {
			for _, rt := range roots {
				ct := x.tasks[rt]
				ok := x.wasOK(ct, 0)
				if !x.spont {
					ok = len(ct.timeline) > 0 && ct.timeline[len(ct.timeline)-1].state == exec.TaskOk
				}
				if !ok {
					last := "INIT"
					if len(ct.timeline) > 0 {
						last = ct.timeline[len(ct.timeline)-1].state.String()
					}
					t.Violate("success-with-unfinished-root root="+last, fmt.Sprintf("Eval returned nil but root %s is %s | %s", ct.name, last, c03describe(c)))
					return
				}
			}
			if giveUp && len(rootSets) == 1 {
				t.Violate("success-after-five-consecutive-losses", "a task was lost five times in a row but Eval returned nil | "+c03describe(c))
				return
			}
		} else {
			x.mu.Lock()
			may := x.mayGiveUp
			x.mu.Unlock()
			if !fatal && !giveUp && !errInit && may && strings.Contains(r.err.Error(), "consecutive") {
				t.Count("give_ups_after_a_completion_lost_before_it_was_seen", 1)
			} else if !fatal && !giveUp && !errInit {
				t.Violate("spurious-error", fmt.Sprintf("Eval returned %v although no task failed fatally and none was lost five times in a row | %s", r.err, c03describe(c)))
				return
			}
		}
	}
	// never runs tasks the roots do not need
	needed := map[*exec.Task]bool{}
	var mark func(t *exec.Task)
	mark = func(tk *exec.Task) {
		if needed[tk] {
			return
		}
		needed[tk] = true
		for _, d := range tk.Deps {
			for i := 0; i < d.NumTask(); i++ {
				mark(d.Task(i))
			}
		}
	}
	for _, rs := range rootSets {
		for _, rt := range rootsOf(stages, rs) {
			mark(rt)
		}
	}
	for _, ts := range stages {
		for _, ct := range ts {
			if ran[ct.t] && !needed[ct.t] {
				t.Violate("ran-unneeded-task", fmt.Sprintf("task %s was run although no root depends on it | %s", ct.name, c03describe(c)))
				return
			}
		}
	}
	t.Count("handoffs", int64(handoffs))
	t.Count("resubmissions", int64(resubs))
	t.Count("histories", 1)
	if len(rootSets) == 2 {
		t.Count("two_evaluator_histories", 1)
	}
	t.Seen("dag_shapes", c03shape(c))
	t.Max("max_script_depth", int64(step))
	if handoffs > 0 && (nonOK || nonInit) {
		t.Nontrivial("")
	}
}

// c03stalled proves a stall: across two goroutine profiles the event counter does not move and the
// same goroutines of the evaluation (everything with a frame of bigslice/exec, and the adversary's Run
// calls) are parked -- in a select, on a channel, a mutex or a condition -- with at least one of them
// inside exec.Eval, and none running or runnable. A Run call of the adversary counts as parked only
// when it is blocked inside exec.(*Task) (recording an outcome on a task whose lock is never
// released); one that waits for the adversary itself is work in the harness's hands, not a stall.
// The harness (the only other actor) has nothing outstanding when this is called, so no event can
// leave that state. Returns the kind of stall ("" if none is proven).
func c03stalled(x *c03exec) bool { return c03stallKind(x, true) != "" }

var c03parkedStates = []string{"select", "chan receive", "chan send", "sync.Mutex.Lock", "sync.Cond.Wait", "semacquire", "sync.WaitGroup.Wait", "sync.RWMutex"}

func c03stallKind(x *c03exec, needEval bool) string {
	sample := func() (sig string, evalParked, runBlocked, ok bool) {
		buf := make([]byte, 4<<20)
		n := runtime.Stack(buf, true)
		var ids []string
		ok = true
		for _, g := range bytes.Split(buf[:n], []byte("\n\n")) {
			s := string(g)
			inRun := strings.Contains(s, "(*c03exec).Run")
			if !inRun && !strings.Contains(s, "bigslice/exec.") {
				continue
			}
			if strings.Contains(s, "props.c03stallKind") {
				continue // the sampling goroutine itself
			}
			head := s
			if i := strings.IndexByte(s, '\n'); i >= 0 {
				head = s[:i]
			}
			state := ""
			if i := strings.IndexByte(head, '['); i >= 0 {
				state = strings.TrimSuffix(head[i+1:], "]:")
				if j := strings.IndexByte(state, ','); j >= 0 {
					state = state[:j]
				}
			}
			parked := false
			for _, p := range c03parkedStates {
				if strings.HasPrefix(state, p) {
					parked = true
				}
			}
			if !parked {
				ok = false
			}
			if inRun {
				if !strings.Contains(s, "bigslice/exec.(*Task)") {
					ok = false // waiting for the adversary
				}
				runBlocked = true
			}
			if strings.Contains(s, "bigslice/exec.Eval(") && strings.HasPrefix(state, "select") {
				evalParked = true
			}
			ids = append(ids, strings.Fields(head)[1]+state)
		}
		sort.Strings(ids)
		return strings.Join(ids, ";"), evalParked, runBlocked, ok
	}
	e0 := atomic.LoadInt64(&x.events)
	s0, p0, r0, ok0 := sample()
	time.Sleep(30 * time.Millisecond)
	s1, p1, r1, ok1 := sample()
	if !ok0 || !ok1 || s0 != s1 || s0 == "" || atomic.LoadInt64(&x.events) != e0 {
		return ""
	}
	if needEval && !(p0 && p1) {
		return ""
	}
	if r0 && r1 {
		return "outcome-blocked-on-task-lock"
	}
	if !needEval {
		return ""
	}
	return "parked"
}

func c03shape(c c03case) string {
	var b strings.Builder
	for _, st := range c.Stages {
		fmt.Fprintf(&b, "%d%v%v;", st.Shards, st.Deps, st.Shuffle)
	}
	fmt.Fprintf(&b, "r%v%v", c.Roots, c.Roots2)
	return b.String()
}

func c03describe(c c03case) string {
	return fmt.Sprintf("graph %s init %v script %v", c03shape(c), c03inits(c), c.Script)
}

func c03inits(c c03case) [][]int {
	var out [][]int
	for _, st := range c.Stages {
		out = append(out, st.Init)
	}
	return out
}

// the DAG shapes: chains, diamonds, multi-root, shuffle phases with groups, shared dependencies
var c03shapes = []struct {
	stages []c03stage
	roots  []int
	roots2 []int
}{
	{[]c03stage{{Shards: 1}}, []int{0}, nil},
	{[]c03stage{{Shards: 2}, {Shards: 2, Deps: []int{0}}}, []int{1}, nil},
	{[]c03stage{{Shards: 1}, {Shards: 1, Deps: []int{0}}, {Shards: 1, Deps: []int{1}}}, []int{2}, nil},
	{[]c03stage{{Shards: 2}, {Shards: 2, Deps: []int{0}, Shuffle: []int{0}}}, []int{1}, nil},
	{[]c03stage{{Shards: 3}, {Shards: 2, Deps: []int{0}, Shuffle: []int{0}}, {Shards: 2, Deps: []int{1}}}, []int{2}, nil},
	{[]c03stage{{Shards: 1}, {Shards: 1, Deps: []int{0}}, {Shards: 1, Deps: []int{0}}, {Shards: 1, Deps: []int{1, 2}}}, []int{3}, nil},            // diamond
	{[]c03stage{{Shards: 2}, {Shards: 2, Deps: []int{0}, Shuffle: []int{0}}, {Shards: 1, Deps: []int{0}, Shuffle: []int{0}}}, []int{1, 2}, nil},   // multi-root, shared shuffle dep
	{[]c03stage{{Shards: 2}, {Shards: 2, Deps: []int{0}, Shuffle: []int{0}}, {Shards: 2, Deps: []int{1}, Shuffle: []int{1}}}, []int{2}, nil},      // two shuffles
	{[]c03stage{{Shards: 1}, {Shards: 1, Deps: []int{0}}, {Shards: 1}}, []int{1}, nil},                                                            // an unneeded task (stage 2)
	{[]c03stage{{Shards: 2}, {Shards: 2, Deps: []int{0}}, {Shards: 2, Deps: []int{0}, Shuffle: []int{0}}}, []int{1}, []int{2}},                    // two evaluations sharing stage 0
	{[]c03stage{{Shards: 1}, {Shards: 2, Deps: []int{0}, Shuffle: []int{0}}, {Shards: 1, Deps: []int{1}, Shuffle: []int{1}}}, []int{2}, []int{1}}, // two evaluations, one contained in the other
	{[]c03stage{{Shards: 2}, {Shards: 1}, {Shards: 2, Deps: []int{0, 1}, Shuffle: []int{0, 1}}}, []int{2}, nil},                                   // cogroup-like: two shuffle deps
	// phase groups whose members each read a producer of their own (what compile builds for the
	// re-shuffle of a reused Result and for shuffle inputs over a materialized slice): the members
	// of one phase do not share their dependencies
	{[]c03stage{{Shards: 2}, {Shards: 2, Deps: []int{0}}, {Shards: 1, Deps: []int{1}, Shuffle: []int{1}}}, []int{2}, nil},
	{[]c03stage{{Shards: 2}, {Shards: 2, Deps: []int{0}}, {Shards: 2, Deps: []int{1}, Shuffle: []int{1}}}, []int{2}, nil},
	{[]c03stage{{Shards: 3}, {Shards: 3, Deps: []int{0}}, {Shards: 1, Deps: []int{1}, Shuffle: []int{1}}}, []int{2}, []int{1}},
}

func runC03(r *vf.Runner) {
	outcomes := []string{"ok", "lost", "err", "lose-done"}
	run := func(c c03case) { r.Case(c, func(t *vf.T) { runC03case(t, c) }) }
	depth := 3
	if !r.Quick() {
		depth = 5
	}
	rnd := r.Rand("c03")
	for _, sh := range c03shapes {
		// total number of tasks
		nt := 0
		for _, st := range sh.stages {
			nt += st.Shards
		}
		// (a) all INIT, exhaustive adversary scripts to the depth bound (picks 0..1, 4 outcomes)
		var scripts [][]c03step
		var rec func(cur []c03step)
		rec = func(cur []c03step) {
			scripts = append(scripts, append([]c03step{}, cur...))
			if len(cur) == depth {
				return
			}
			for p := 0; p < 2; p++ {
				for _, o := range outcomes {
					rec(append(cur, c03step{Pick: p, Outcome: o}))
				}
			}
		}
		rec(nil)
		for _, sc := range scripts {
			c := c03case{Roots: sh.roots, Roots2: sh.roots2, Script: sc}
			for _, st := range sh.stages {
				c.Stages = append(c.Stages, c03stage{Shards: st.Shards, Deps: st.Deps, Shuffle: st.Shuffle})
			}
			run(c)
		}
		// (b) every assignment of initial states {INIT, OK, LOST, ERR} (for graphs of <= 6 tasks), all succeed
		if nt <= 6 {
			total := 1
			for i := 0; i < nt; i++ {
				total *= 4
			}
			for a := 0; a < total; a++ {
				if r.Quick() && nt > 4 && a%5 != 0 {
					continue
				}
				c := c03case{Roots: sh.roots, Roots2: sh.roots2}
				x := a
				for _, st := range sh.stages {
					ns := c03stage{Shards: st.Shards, Deps: st.Deps, Shuffle: st.Shuffle}
					for i := 0; i < st.Shards; i++ {
						ns.Init = append(ns.Init, x%4)
						x /= 4
					}
					c.Stages = append(c.Stages, ns)
				}
				run(c)
			}
		}
	}
	// (c) seeded random: random initial states and scripts to depth 40
	n := 8000
	if !r.Quick() {
		n = 300000
	}
	for i := 0; i < n; i++ {
		sh := c03shapes[rnd.Intn(len(c03shapes))]
		c := c03case{Roots: sh.roots, Roots2: sh.roots2, Seed: rnd.Uint64()}
		for _, st := range sh.stages {
			ns := c03stage{Shards: st.Shards, Deps: st.Deps, Shuffle: st.Shuffle}
			for j := 0; j < st.Shards; j++ {
				ns.Init = append(ns.Init, rnd.Pick(0, 0, 0, 1, 2, 3))
			}
			c.Stages = append(c.Stages, ns)
		}
		for j, k := 0, rnd.Intn(40); j < k; j++ {
			c.Script = append(c.Script, c03step{Pick: rnd.Intn(4), Outcome: outcomes[rnd.Pick(0, 0, 0, 1, 1, 2, 3)]})
		}
		run(c)
	}
}
