module verifharness

go 1.22

require (
	github.com/anishathalye/porcupine v1.3.0
	github.com/grailbio/base v0.0.9
	github.com/grailbio/bigmachine v0.5.8
	github.com/grailbio/bigslice v0.0.0
)

require (
	github.com/DataDog/zstd v1.4.1 // indirect
	github.com/Nvveen/Gotty v0.0.0-20120604004816-cd527374f1e5 // indirect
	github.com/cespare/xxhash v1.1.0 // indirect
	github.com/google/pprof v0.0.0-20190930153522-6ce02741cba3 // indirect
	github.com/shirou/gopsutil v2.19.9+incompatible // indirect
	github.com/spaolacci/murmur3 v1.1.0 // indirect
	golang.org/x/net v0.0.0-20200226121028-0de0cce0169b // indirect
	golang.org/x/sync v0.0.0-20190911185100-cd5d95a43a6e // indirect
	golang.org/x/sys v0.0.0-20200331124033-c3d80250170d // indirect
	golang.org/x/text v0.3.2 // indirect
	golang.org/x/time v0.0.0-20190921001708-c4c64cad1fd0 // indirect
	v.io v0.1.8 // indirect
	v.io/x/lib v0.1.5 // indirect
)

replace github.com/grailbio/bigslice => /repo
