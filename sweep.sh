#!/bin/bash
# sweep.sh <seed> [tier] [ids...] : run every check once at the given seed; one summary line each.
SEED=${1:-1}; TIER=${2:-quick}; shift; shift
IDS="$@"; [ -z "$IDS" ] && IDS=$(seq -f 'C%02g' 1 20)
cd "$(dirname "$(readlink -f "$0")")"
for id in $IDS; do
  VERIF_SEED=$SEED ./check $id $TIER > /var/tmp/sweep-$$-$id-$SEED-$TIER.log 2>&1; rc=$?
  echo "rc=$rc $(grep -E "^\[$id " /var/tmp/sweep-$$-$id-$SEED-$TIER.log | tail -1)"
  grep -E "^VIOLATION|^INCONCLUSIVE|signature:" /var/tmp/sweep-$$-$id-$SEED-$TIER.log | cut -c1-300
done
