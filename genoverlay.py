#!/usr/bin/env python3
"""Generate /verif/build/overlay.json and build/repo.go.mod for the build shim (DESIGN §1).
Re-run before every build: repo.go.mod is derived from the *current* /repo/go.mod."""
import json, os, re, subprocess, sys
V = os.path.dirname(os.path.abspath(__file__))
repo = os.environ.get('VERIF_REPO', '/repo')
env = dict(os.environ, GOFLAGS='-mod=mod', GOPROXY='off', GOSUMDB='off', GOTOOLCHAIN='local')
modcache = subprocess.check_output(['go', 'env', 'GOMODCACHE'], env=env, text=True).strip()
os.makedirs(V + '/build', exist_ok=True)
# A tree other than /repo (a scratch worktree with a seeded change applied) gets its own overlay,
# go.mod copy and a harness module file whose replace directive points at it.
import hashlib
tag = '' if repo == '/repo' else '-' + hashlib.md5(repo.encode()).hexdigest()[:8]
gm = open(repo + '/go.mod').read()
gm2, n = re.subn(r'(?m)^go\s+\d+\.\d+(\.\d+)?\s*$', 'go 1.21', gm)
if n != 1:
    gm2 = gm + '\ngo 1.21\n'
tmp = V + '/build/repo%s.go.mod.tmp%d' % (tag, os.getpid())
dst = V + '/build/repo%s.go.mod' % tag
if not os.path.exists(dst) or open(dst).read() != gm2:
    open(tmp, 'w').write(gm2); os.replace(tmp, dst)
base = modcache + '/github.com/grailbio/base@v0.0.9'
bm = modcache + '/github.com/grailbio/bigmachine@v0.5.8'
ov = {'Replace': {
    repo + '/go.mod': dst,
    repo + '/exec/config.go': V + '/shim/exec_config.go',
    base + '/errors/verif_cleanup.go': V + '/shim/base_errors_cleanup.go',
    base + '/retry/verif_maxretries.go': V + '/shim/base_retry_maxretries.go',
    base + '/limitbuf/limitbuf.go': V + '/shim/base_limitbuf.go',
    bm + '/rpc/client.go': V + '/shim/bigmachine_rpc_client.go',
}}
s = json.dumps(ov, indent=1)
p = V + '/build/overlay%s.json' % tag
if not os.path.exists(p) or open(p).read() != s:
    t = p + '.tmp%d' % os.getpid(); open(t, 'w').write(s); os.replace(t, p)

if tag:
    hm = open(V + '/harness/go.mod').read().replace('=> /repo', '=> ' + repo)
    mp = V + '/build/harness%s.mod' % tag
    if not os.path.exists(mp) or open(mp).read() != hm:
        t = mp + '.tmp%d' % os.getpid(); open(t, 'w').write(hm); os.replace(t, mp)
    sp = V + '/build/harness%s.sum' % tag
    hs = open(V + '/harness/go.sum').read()
    if not os.path.exists(sp) or open(sp).read() != hs:
        t = sp + '.tmp%d' % os.getpid(); open(t, 'w').write(hs); os.replace(t, sp)
print(tag)
