// Shim (verif trusted base): retry.MaxRetries is the newer name of MaxTries.
package retry

// MaxRetries returns a policy that permits at most n retries.
func MaxRetries(policy Policy, n int) Policy {
	if n < 0 {
		panic("retry.MaxRetries: n < 0")
	}
	return &maxtries{policy, n}
}
