// Shim (verif trusted base): replaces /repo/exec/config.go, which registers a
// base/config profile through a generic API absent from base v0.0.9.
package exec
