// Shim (verif trusted base): base v0.0.9 limitbuf with the option-taking
// NewLogger signature of newer grailbio/base. Replaces limitbuf.go through a build overlay.
package limitbuf

import "strings"

type Logger struct {
	maxLen       int
	truncated    bool
	addedTrailer bool
	b            strings.Builder
}

// LoggerOption is passed to NewLogger.
type LoggerOption func(*Logger)

// LogIfTruncatingMaxMultiple is accepted and ignored (it only controls logging).
func LogIfTruncatingMaxMultiple(m float64) LoggerOption { return func(*Logger) {} }

func NewLogger(maxLen int, opts ...LoggerOption) *Logger {
	l := &Logger{maxLen: maxLen}
	for _, o := range opts {
		o(l)
	}
	return l
}

func (b *Logger) Write(data []byte) (int, error) {
	n := b.maxLen - b.b.Len()
	if n > len(data) {
		n = len(data)
	}
	if n > 0 {
		b.b.Write(data[:n])
	}
	if n < len(data) {
		b.truncated = true
	}
	return len(data), nil
}

func (b *Logger) String() string {
	if b.truncated {
		if !b.addedTrailer {
			b.b.WriteString("(truncated)")
			b.addedTrailer = true
		}
	}
	return b.b.String()
}
