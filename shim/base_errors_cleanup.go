// Shim (verif trusted base): functions present in newer grailbio/base that
// /repo uses but base v0.0.9 lacks. Added to package errors through a build overlay.
package errors

import "context"

// CleanUp calls cleanUp and, if *dst is nil, stores its error there.
func CleanUp(cleanUp func() error, dst *error) {
	if err := cleanUp(); err != nil && *dst == nil {
		*dst = err
	}
}

// CleanUpCtx is CleanUp for closers that take a context.
func CleanUpCtx(ctx context.Context, cleanUp func(context.Context) error, dst *error) {
	if err := cleanUp(ctx); err != nil && *dst == nil {
		*dst = err
	}
}
