#!/bin/bash
# Run dormant tests of /repo packages through the build shim, from the harness module:
#   ./shimtest.sh sliceio frame [-run X]
cd "$(dirname "$0")"; . ./env.sh; python3 genoverlay.py
pk=(); while [ $# -gt 0 ] && [[ "$1" != -* ]]; do if [ "$1" = "." ]; then pk+=("github.com/grailbio/bigslice"); else pk+=("github.com/grailbio/bigslice/$1"); fi; shift; done
cd harness && go test -overlay=/verif/build/overlay.json -vet=off -count=1 "${pk[@]}" "$@"
