#!/bin/bash
# Offline setup: generate the overlay and warm the builds (plain, race, checkptr).
set -e
cd "$(dirname "$0")"
. ./env.sh
mkdir -p build bin evidence replay
python3 genoverlay.py
cd harness
go build -tags verif -overlay=/verif/build/overlay.json -o /verif/bin/vh-plain ./cmd/vh
go build -tags verif -overlay=/verif/build/overlay.json -race -gcflags=github.com/spaolacci/murmur3=-d=checkptr=0 -o /verif/bin/vh-race ./cmd/vh
echo setup ok
