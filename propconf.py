"""Per-property configuration of the orchestrator (./check)."""

def P(level, rule, variants=None, nbatch=(8, 16), timeout=(600, 3000), **kw):
    variants = variants or {'quick': ['plain'], 'thorough': ['plain']}
    d = dict(level=level, rule=rule, variants=variants, nbatch={'quick': nbatch[0], 'thorough': nbatch[1]},
             timeout={'quick': timeout[0], 'thorough': timeout[1]})
    d.update(kw)
    return d

PROPS = {
 'C11': P('exploration',
          'cases = (schema, base capacity, view offset/length, prefix, data seed, operation sequence); (a) every view of frames '
          'up to 5 (quick) / 9 (thorough) rows x every single operation with all parameters x 10 column schemas, (b) seeded random '
          'sequences of up to 30 operations over up to 4 live views. After every operation all storages (inside and outside views) '
          'and all views are compared with a slice-of-rows model. Non-trivial: the initial view has offset>0 or len<cap; distinct by descriptor.',
          variants={'quick': ['plain'], 'thorough': ['plain', 'checkptr']},
          must_observe=['ops_on_offset_views', 'storage_rows_checked']),
}

META = {
 'C11': dict(
    text='Exploration: the real frame package is driven through every single operation on every view of small frames and through '
         'random operation sequences, with a plain slice-of-rows model as oracle and full-storage comparison after every step; '
         'thorough adds a checkptr build for the unsafe pointer arithmetic. Held on the executions produced, not a proof.',
    note='Trusts the model (c11.go), reflect, the build shim. Frames are built over Go slices owned by the monitor.',
    technique='model-based runtime monitoring (slice-of-rows reference model, canary storage comparison, checkptr build)'),
}
