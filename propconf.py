"""Per-property configuration of the orchestrator (./check)."""

def P(level, rule, variants=None, nbatch=(8, 16), timeout=(600, 3000), **kw):
    variants = variants or {'quick': ['plain'], 'thorough': ['plain']}
    d = dict(level=level, rule=rule, variants=variants, nbatch={'quick': nbatch[0], 'thorough': nbatch[1]},
             timeout={'quick': timeout[0], 'thorough': timeout[1]})
    d.update(kw)
    return d

PROPS = {
 'C11': P('exploration',
          'cases = (schema, base capacity, view offset/length, prefix, data seed, operation sequence); (a) every view of frames '
          'up to 5 (quick) / 9 (thorough) rows x every single operation with all parameters x 13 column schemas (incl. pointer-free element types of 3, 10 and 12 bytes and a custom-codec type), (b) seeded random '
          'sequences of up to 30 operations over up to 4 live views. After every operation all storages (inside and outside views) '
          'and all views are compared with a slice-of-rows model. Non-trivial: the initial view has offset>0 or len<cap; distinct by descriptor.'
          ' Seventh round: frames over column slices shorter than their capacity (spare family).',
          variants={'quick': ['plain'], 'thorough': ['plain', 'checkptr']},
          must_observe=['ops_on_offset_views', 'storage_rows_checked']),
 'C07': P('fault_enumeration',
          'fidelity cases = (schema, batch-size script, destination-size script, data seed) over 13 schemas incl. gob-only, pointer, odd-size pointer-free and custom-codec (frame.RegisterOps) types, '
          'empty batches, sizes around 128; damage cases = every single-bit flip and every truncation point of the encoded bytes of small '
          '3-batch streams (exhaustive per stream) every value of the first byte (length prefix) of every gob message of those streams, every single-byte substitution (255 values x every byte; quick: one stream), and random 1-6 byte bursts on 4-batch streams; thorough adds a coverage-guided fuzz target (Go native fuzzing, 3 000 000 executions from the seed corpus, 9 schemas) whose inputs are judged by the same oracle when they are a prefix of, or within an 8-byte window of, the encoded stream, and structurally (no panic, n within bounds, canaries, earlier frames unchanged, termination) otherwise. Oracle: rows delivered == rows written '
          '(fidelity); for damage inside a batch: an error, every row delivered before it correct and not beyond the damaged batch. '
          'Non-trivial: fidelity with >=2 batches or a destination size differing from the batch size; every damage case.'
          ' Seventh round: a lenient custom-codec column type and an all-codec schema in the damage families.',
          variants={'quick': ['plain'], 'thorough': ['plain', 'checkptr']}, ulimit_v_kb=6000000,
          fuzz={'thorough': dict(target='FuzzC07Decode', execs=3000000, parallel=12, timeout=3000)},
          must_observe=['bit_flips', 'truncations', 'length_byte_values', 'damage_detected_as_error', 'rows_roundtripped']),
 'C10': P('exploration',
          'cases = (kind sort|merge|reduce, schema, key prefix, rows per stream, key distribution, spill target, canary rows, SpillBatchSize, '
          'upstream chunk scripts incl. empty non-final reads for sort and n>0-with-EOF, destination-size script, optional injected upstream '
          'error at call j (alone, or together with up to k rows and followed by EOF), data seed): a fixed regression list (sizes 0,1,2,127,128,129,700; all-equal keys; empty streams) plus seeded random '
          'cases. Oracle: sorted permutation / sorted union / per-key sum; injected errors must surface; no spiller-* directory in the private '
          'TMPDIR after SortReader returns. Non-trivial: >=2 streams merged, or more rows than the canary (>=2 spills), or an error actually delivered.',
          must_observe=['sorts_with_multiple_spills', 'injected_errors_propagated', 'rows_merged', 'spill_dir_checks'], leftover_is_violation=True),
 'C17': P('exploration',
          'cases = (subject, rows per upstream stream, upstream chunk scripts {k rows | 0 rows,nil | k rows+EOF}, destination-size script, '
          'parameter, data seed) for 24 subjects: the Reader(shard, deps) of const, readerfunc, map, filter, flatmap, fold, head, writerfunc, '
          'scan, reshuffle, reduce, cogroup; sliceio.MultiReader, FrameReader; exec multiReader and task-buffer reader (verif export); the '
          'decoding reader over a stream encoded in batches that follow the chunk script, spill readers (Spiller with SpillBatchSize 1,3,50,128), '
          'and the decoding reader over a file-store and a memory-store partition; '
          'Scanner.Scan/Scanv incl. wrong arity/type on the first call and after 1, 2, 130 correct calls. Bounded-exhaustive over sizes {0,1,2,3,5,6,127,128,129,300} x 9 chunk scripts x 8 '
          'destination scripts (quick: every 4th), plus seeded random cases. Oracle: row-level statement of each operator; 0<=n<=len(dst); '
          'canary rows beyond n intact on successful calls; frames delivered earlier unchanged at the end. Non-trivial: the case completed '
          'with a reader actually driven; distinct by descriptor.',
          must_observe=['rows_delivered', 'reads']),
 'C09': P('exploration',
          'cases: (a) exhaustive groups = (key schema, fold, alphabet size k, max length L, initial capacity in {1,2,4,8}, scratch in {1,2,8}, '
          'optionally keys brute-forced to collide in HashWithSeed&7): every key sequence over the alphabet up to length L is fed to a '
          'combining frame (views at non-zero offset) and compacted; (b) random skewed streams into combining frames with mid-stream '
          'compactions; hot keys (one key fed 65535..140000 times without a compaction); (c) random streams into the spilling combiner with spill thresholds 1..50 and larger, initial table sizes 1..128, '
          'drained through a destination adversary or discarded. Oracle: map model with sum/xor/min; the verif hook in the probe loop asserts that '
          'a probe sequence ends within cap tries (a non-terminating probe is a violation, not a watchdog timeout). Non-trivial: group '
          'enumerated / table resized / combiner spilled at least once.',
          must_observe=['key_sequences', 'table_resizes', 'combiners_that_spilled', 'spill_dir_checks'], leftover_is_violation=True),
 'C18': P('exploration',
          'every (constructor, slice type, function signature) triple of the cross product: 8 function-taking constructors x 18 slice types '
          '(prefix 1, 2 and 3; unhashable and op-less keys in the first and in later key columns) x ~700 signatures built with reflect.MakeFunc (exact, context-first, context in a non-leading position, permuted, arity +-1, '
          'interface-typed, variadic, accumulator-first, writer/reader shaped, 15 result lists, non-func values), plus structural constructors '
          '(Const, Prefixed, Head, Scan, Reshuffle, Reshard, Cogroup over all pairs). Exhaustive in that universe. Oracle: independent schema '
          'table (c18expected) + any panic must be a *typecheck.Error located at the calling line. Each Case is one (constructor, slice type) '
          'group; distinct triples are counted in |triples|.'
          ' Seventh round: slices with a slice-typed last column and variadic functions whose parameter list equals the columns.',
          nbatch=(4, 4), must_observe=['accepted', 'rejected', 'calls']),
 'C01': P('exploration',
          'cases = (session configuration, program spec): (a) fixed regression list (ScanReader with 0/1/n lines vs shards, fan-out > vector, '
          'low-accept filters across 128, sub-slice consumed with two partition counts, Head(0)/Head>shard, prefix-2 reduce, unit Scan result) on '
          'local p=1, p=4 and a 2-proc-per-machine testsystem; (b) operator chains of length <=2 (quick, every 7th) / <=3 (thorough) over '
          'const/readerfunc/scanreader sources x sizes {0,1,127,128,129,257} x shards {1,2,3,5}; (c) seeded random DAGs with sharing, multi-input '
          'cogroup, nested shuffles, prefixes>1, 10 column kinds incl. gob-only and pointer-carrying values: 150 local + 12 distributed (quick), '
          '5000 + 300 (thorough). Oracle: sequential reference evaluator (exact per-shard sequence where the program fixes order, multiset '
          'otherwise, sub-multiset for Head after a shuffle) + recorder of Scan/WriterFunc callbacks (every row once, one end-of-stream). '
          'Non-trivial: >=2 operators and a run that produced rows or an explicitly empty result; distinct by spec+configuration.',
          nbatch=(16, 16), timeout=(900, 3400),
          must_observe=['programs_run', 'programs_with_shuffle', 'programs_on_bigmachine', 'programs_with_sharing']),
 'C05': P('exploration',
          'cases = (executor, key kinds, operator in {reshard, reshuffle, reduce, fold, cogroup, repartition}, producer shards 1..5, output shards, '
          'key set, rotation of the key list (vector offsets / producer of each key), duplication): exhaustive value range for uint8/int8/bool and '
          'uint16/int16 keys; boundary (0, +-0.0, +-Inf, denormals, empty/long strings, integer limits) and random values for 15 key types; '
          '2- and 3-column prefixes; shard counts {1,2,3,4,7,16,17} (quick) / 1..17 (thorough); some runs on a testsystem; a narrowing family '
          '(Reshuffle/Cogroup by a 2-column key, Prefixed(1), then Cogroup/Reshuffle/Fold with the same shard count, first-column values '
          'repeating; also with the first redistribution as an earlier invocation whose Result is re-prefixed); Reshard to the shard count a slice already has (known finding); two Repartitions of one slice. A WriterFunc after the '
          'operator records (shard,row). Oracle: equal keys (Go ==) -> one shard within a run; (operator class, type, key, nshard) -> shard is the same '
          'in every run of the process (different producers, offsets, executors) and, by digest, in every separately started child process '
          '(GOMAXPROCS varied per child); Repartition rows sit in the shard the function returned; aggregations emit each key once. '
          'Non-trivial: >=2 producers and >=2 output shards received rows.'
          ' Seventh round: two views of one slice (first column / Prefixed to two columns) redistributed in one invocation, both join orders and each view alone; placement must agree.',
          nbatch=(8, 16), vary_gomaxprocs=True, must_observe=['keys_checked', 'runs_on_bigmachine', 'cross_process_values_compared']),
 'C04': P('exploration',
          'cases = (program spec, list of execution configurations). Every program of the generator (user functions take a context and increment '
          'registered counters) runs under local p=4, a 2-proc testsystem, and 4 (quick) / 14 (thorough) further configurations drawn from '
          '{local p in 1,4,16; testsystem machine procs 1,2,4 x parallelism x max-load 0.3/0.95; machine combiners on/off; DoShuffleReaders on/off; '
          'chunk rows 1,2,4,8,128; sort canary 1,2,256; SpillBatchSize 1,3,128; Procs/Exclusive/Materialize pragmas at seed-chosen operators}. '
          'Oracle: canonicalised rows equal between all configurations and equal to the reference evaluator; counter vectors of result.Scope() '
          'equal between configurations and equal to the increments counted by the recorder (programs with Head excluded). The diamond programs of C08\'s shared-producer family are executed with and without the Materialize pragma on the shared slice. A combiner-contention '
          'family (6 / 60 programs: 4-16 shards x 1000-4000 rows x 40-3000 keys through Reduce, optionally Reshard+Reduce again) runs on local, '
          'on testsystems with machine combiners and 4 resp. 2 procs per machine, and without machine combiners. '
          'Non-trivial: the program ran under both executor kinds.',
          nbatch=(8, 16), timeout=(900, 3400), vary_gomaxprocs=True,
          must_observe=['configuration_pairs_compared', 'counter_vectors_compared', 'runs_with_nonzero_counters', 'combiner_contention_programs']),
 'C20': P('exploration',
          '(a) law cases = (number of scopes, operation sequence over incr / concurrent incr from 4 goroutines / merge / reset / reset(nil) / gob round '
          'trip / read) against a per-scope counter array model, 8 registered counters; the monitor reads either directly (Counter.Value, which '
          'instantiates the counter in the scope read), through a Reset copy, through a gob round trip, or only at the end of the history, so that '
          'operations also meet scopes without instances; every history ends with a direct read of all scopes; (b) end-to-end cases = generated '
          'programs whose user functions increment counters, run on local and testsystem executors: Counter.Value(result.Scope()) must equal the '
          'increments counted independently by the recorder; (c) result chains (24 / 400): a base result feeds 1-3 further Funcs (over earlier results '
          'of the chain), Result.Scope() of every result is read before and after each step and must equal the increments of the runs whose tasks '
          'are in its graph, each counted once. Non-trivial: laws with >=1 merge/reset/gob combining two scopes; e2e run on both executors; chain '
          'with non-zero counters in base and a derived run. Chain steps may discard the result they consume first (recomputation without failure). (d) dropped replies: the reply of the k-th Worker.Run is lost '
          '(no machine fails), the retried call is answered from the completed task: counters must equal those of a failure-free run.'
          ' Seventh round: user metrics of partly cached results (CachePartial around a shuffle, every subset of shard files).',
          variants={'quick': ['plain'], 'thorough': ['plain', 'race']}, nbatch=(8, 16),
          must_observe=['law_op_merge', 'law_op_gob', 'law_op_reset', 'runs_with_nonzero_counters', 'increments_checked', 'chain_scope_reads', 'chain_discards_before_a_step', 'replies_dropped_after_the_task_had_run', 'law_histories_read_end', 'law_histories_read_copy']),
 'C08': P('exploration',
          'cases = (program spec with random pragmas, machine combiners on/off, optionally a Result argument of an earlier invocation): each is '
          'compiled by the driver path, compiled again, and compiled from the gob-transported invocation with references substituted as '
          'worker.Compile does; canonical dumps (names, shard/partition counts, combine keys, partitioner kind, pragmas, pipelined slices, groups, '
          'dependency wiring) must be identical, and a structural checker written against the slice DAG asserts: acyclic, unique names, one root '
          'per result shard, one task per shard per stage, no pipelining across shuffle/Materialize/Result, shard p wired to partition p of every '
          'producer shard, producer NumPartition == consumer shards. 12 fixed programs are compiled by every child process and their digests '
          'compared across processes. A shared-producer family (784 programs) has a Materialize-pragma slice of 1-3 shards or a Result argument '
          'consumed twice in one invocation - directly (none/filter/map) or by reshard 1/2/3/reshuffle, and by reshard 1/2/3, reshuffle, repartition, '
          'cogroup, fold - joined by a Cogroup in both orders, with machine combiners on and off. Non-trivial: the graph has a shuffle edge or a '
          'reused Result.'
          ' Seventh round: the worker-side compilation binds earlier results as a worker holds them.',
          nbatch=(4, 16), must_observe=['graphs_compiled', 'tasks_checked', 'cross_process_values_compared']),
 'C12': P('exploration',
          'cases = (executor, base program, history of operations over the growing set of results): scan (1-4 concurrent scanners, optionally '
          'concurrent with the next operation), scanmid (a scanner reads K in {0,1,100,129,300} rows, the result is discarded, the scanner reads on: '
          'all rows or an error, never short and clean), blockedderive (R is discarded while the tasks of a Func over it wait for the session\'s only proc, held by a slow run), '
          'rediscard (R, a discarded slowed-down Reduce, is discarded again when K% of its recomputation\'s combiner calls have been made), derive (a generated Func consuming one or two results through pipelined and redistributing '
          'operators), discard (optionally concurrent), kill a machine (testsystem). A fixed list runs every redistributing operator over a result '
          'argument before and after a discard, and six pairs of different redistributions of the same result inside one Func (two combiners, two '
          'widths, with and without combiner) joined by a Cogroup; seeded histories of 2..6 (quick) / 2..10 (thorough) operations follow, on local p=4 and a testsystem '
          'with 50 ms keepalive. Oracle at the API boundary: every successful scan yields the reference rows of that result; a Func over results '
          'succeeds with the reference rows of the derived program, also after discards (ancestors of a discarded result count as discarded); a scan '
          'of a discarded/lost result returns the reference rows or an error; nothing may fail on intact results; every operation returns. '
          'Non-trivial: a reuse after discard/kill happened, or >=2 concurrent scanners.',
          nbatch=(16, 16), timeout=(900, 3400),
          must_observe=['derived_runs_ok', 'recomputations_after_discard_or_loss', 'scans_ok', 'concurrent_scan_groups', 'discards_in_mid_scan', 'discards_while_a_consumer_waited_for_a_proc', 'discards_during_the_recomputation_of_the_discarded_result']),
 'C06': P('fault_enumeration',
          'cases = (executor in {local p=1, local p=4, testsystem, testsystem+machine combiners}, call site in {readerfunc, scanreader open, '
          'writerfunc, map, filter, flatmap, fold, reduce combiner, repartition function, scan callback}, mode in {error, error of base/errors with a kind but no severity, temporary error, panic, '
          'out-of-range partition} as applicable to the site, persistent | one-shot, position in {first call, call 127/128/129, last call}, and for '
          'the six producer-side sites what consumes the failing task\'s output: the result itself | a Reshuffle (several partitions, no combiner) | '
          'Map+Reduce (through a combiner)); the reduce combiner failed at its k-th invocation, k=0..39 (quick: 9 values), and a site reducebuf whose '
          'producer cycles through five keys so that every producer-side invocation happens in the per-partition combine buffer. thorough = the full product; quick = a fixed sample of it (~230). A failure-free dry run '
          'on the same session fixes the reference rows and the number of calls, from which the failing call index is derived. Oracle: persistent '
          'failure => Run returns an error carrying the message (reader/writer/scan errors, every panic); one-shot temporary failure => success with '
          'reference rows; any success => reference rows (no partial result); calls <= 8x failure-free calls + 50; a trivial run on the same session '
          'afterwards succeeds; the child process survives (journal attribution otherwise); Run returns (watchdog => inconclusive). '
          'Non-trivial: the failing call index was actually reached.',
          nbatch=(16, 16), timeout=(900, 3400),
          must_observe=['persistent_failures_reported', 'one_shot_failures_recovered', 'sessions_reused_after_failure']),
 'C13': P('fault_enumeration',
          'cases = (executor, Cache|CachePartial, position of the cache operator in {head, middle, directly under Prefixed, after a filter that keeps nothing (empty shards), after a Materialize-pragma dependency, before a shuffle, after a shuffle, under a Head}, '
          'shard count 1..3 (quick) / 1..4 (thorough), subset of shard files present before the second run (all subsets), fault plan). Fault plans: '
          'none; one fault at file-operation ordinal k of the write-through (k over the fault-free trace of the same program, quick: every 3rd/7th), '
          'optionally as a short write; the 1st/2nd Create or Close; every Write from ordinal k on failing persistently (k over the trace, so that no '
          'retry repairs what a failed attempt left); the source function failing at call 0/1/3. File operations are observed and faulted through a '
          'base/file implementation ("vfault") wrapped around the local one. Oracle: rows with cache == reference rows; after any run every shard file '
          'that exists (which a later NewFileShardCache accepts) decodes to the complete reference shard; in the second run the source function (which '
          'knows its shard) is invoked for a shard iff that shard is not served from cache (Cache: iff not all files present); ReadCache yields the '
          'cached relation. Non-trivial: a file was written or read / the fault fired.'
          " Seventh round: the result's scope of the second run reports exactly the increments performed in that run.",
          nbatch=(16, 16), must_observe=['cache_files_inspected', 'file_faults_fired', 'cached_shards_skipped', 'uncached_shards_recomputed', 'readcache_runs']),
 'C19': P('exploration',
          'cases = (executor, base program with shard-aware sources, 2..6 generated programs consuming the base Result as both arguments, 0..2 '
          'concurrent scanners, discard of the shared result before and/or during the concurrent phase, user-function delay in {0,50,300,2000} us, '
          'seed-chosen delays before/after Worker.Run/Compile/Read/Stat RPCs, repetition index). All runs and scans of a scenario start together; '
          'each scenario is repeated 5 (quick) / 40 (thorough) times; GOMAXPROCS is 1,2,4,16 by child batch. Built with the race detector in both '
          'tiers: every report with a bigslice frame is a violation (third-party-only reports are counted and ignored). Oracle: every concurrent run '
          'succeeds with its solo reference rows; scans yield reference rows (or an error once the result was discarded); executions of the same '
          'shared task (a source shard of the base program) never overlap in time; every operation returns (stall rule, else inconclusive). A fixed family has one '
          'of four concurrent runs fail by script while all wait for the recomputation of the discarded shared result: it returns its error, the others succeed. '
          'Non-trivial: >=2 runs were started together over a shared result; distinct by scenario x repetition.'
          ' Seventh round: wide shared recomputation (64 shards, 8 concurrent runs, local p=4 and p=16).',
          variants={'quick': ['race'], 'thorough': ['race']}, nbatch=(16, 16), timeout=(1200, 3400), vary_gomaxprocs=True,
          must_observe=['concurrent_runs_ok', 'scenarios_with_all_runs_overlapping', 'shared_source_attempts']),
 'C03': P('exploration',
          'cases = (task graph out of 12 shapes: chains, diamond, multi-root, one/two shuffle phases with task groups, shared and double shuffle '
          'dependencies, an unneeded task, two evaluations over shared tasks; initial state of every task in {INIT, OK, LOST, ERR}; adversary script). '
          '(a) all-INIT graphs with every script of length <= 3 (quick) / 5 (thorough) over (pick in {0,1}) x {ok, lost, err, lose-a-completed-task}; '
          '(b) every initial-state assignment for graphs of <= 6 tasks (quick: every 5th above 4 tasks); (c) 8000 / 300000 seeded random initial '
          'states and scripts up to depth 40. exec.Eval runs against an adversarial Executor that parks every hand-off; all harness-made state changes '
          'and hand-offs get logical timestamps. Oracle: every dependency OK at hand-off (window form when completed tasks are lost spontaneously); '
          'no task handed out twice at once; no unneeded task run; nil only if every root is OK; an error only after a fatal outcome, five consecutive '
          'losses or an initially failed task; and no stall (evaluation not returned, nothing in the executor, event counter unchanged across two '
          'goroutine profiles showing Eval parked). Non-trivial: >=1 hand-off and a non-OK outcome or non-INIT initial state.'
          ' Seventh round: shapes with phase groups whose members each read a producer of their own.',
          variants={'quick': ['plain'], 'thorough': ['plain', 'race']}, nbatch=(8, 16),
          must_observe=['handoffs', 'resubmissions', 'two_evaluator_histories']),
 'C14': P('exploration',
          'three monitors. (a) placement: every configuration of <= 2 (quick) / 4 (thorough) queued requests (priority 0..2, procs 1..4) and <= 3 '
          'machines (capacity 1..4, any load) is given to the real schedule() (verif export); oracle: an independent implementation of the documented '
          'rule compared on (priority, procs) of the chosen request and free capacity of the chosen machine, plus fit, preservation of both queues '
          'and heap-index consistency; exhaustive in that space. (b) live manager: seeded histories of offer / receive / cancel (after trying to receive, or blindly) / done(ok | remote '
          'error | transport error) / kill over a real machineManager on a testsystem, max-load in {0.3,0.5,0.9,0.95,1} x machine procs {1,2,3,4} x parallelism '
          '{1,3,8}; the capacity the manager uses is compared with an independent integer statement (procs x percent / 100, at least 1); a loop hook (tag verif) publishes a copy of the manager state at every iteration, on which 0<=taskProcs<=capacity, need>=0, '
          'pending>=0 are asserted; a client-side ledger cross-checks grants; at the end quiescence (all returned/cancelled => need=0, queue empty, '
          'all taskProcs=0) and machines started <= ceil(min(peak need, parallelism)/capacity) + machines lost. (c) end to end: programs with '
          'Procs/Exclusive pragmas through real sessions with every exit path provoked (success, user panic, persistent temporary error, machine '
          'kill after a task, kill before a combiner commit under machine combiners), then quiescence; local executor: a gauge in the source '
          'functions never exceeds Parallelism and reads 1 while an Exclusive task runs. Non-trivial: queue and machine list non-empty / >=1 event.'
          " Seventh round: a queued request that fits on a healthy machine (independent placement rule over the manager's newest state) must be granted; requesters receive on all queued requests at once; freed-room histories.",
          nbatch=(13, 16), timeout=(900, 3400),
          must_observe=['placement_nontrivial', 'manager_snapshots_checked', 'offers_granted', 'e2e_runs', 'local_runs', 'capacities_checked_against_max_load_share']),
 'C15': P('fault_enumeration',
          'three monitors. (a) sequences: every operation sequence up to length 4 (quick, every 3rd) / 5 (thorough) over the alphabet {create, '
          'write 5, write 300, commit, discard-writer, open, open at offset 3, stat, discard} on both store implementations, fault-free; plus six '
          'write/commit/read protocols (two of them with two writers open for one partition, two over several partitions of one task) on both stores fault-free and on the file store with a fault (optionally a short write) injected at every file-operation ordinal 0..23 '
          'through the vfault file system. Oracle: a per-partition model: Open/Stat fail before a successful commit; afterwards Open(o) returns '
          'exactly committed[o:], Stat the committed size and record count, until discarded; a Commit that returned nil must have persisted the '
          'data (the next Open must succeed with those bytes). (b) retry reader (verif export) over a scripted stream: a transient failure at every '
          'byte position of streams of 0,1,7,24 (quick) / 64 (thorough) bytes x partial-read sizes {whole,1,3}, each also as a permanent failure; '
          'random multi-failure scripts up to 64 KiB; zero-delay policy of 5 retries: within budget => exactly the committed bytes then EOF; '
          'permanent failure => an error and only a correct prefix before the failing byte. (c) concurrent writer/readers/discarder histories '
          '(4 clients x 6 operations, unique payloads) recorded at the API boundary and checked with porcupine against a register model. '
          'Non-trivial: a fault fired, a retry happened, or a concurrent history was checked.',
          nbatch=(8, 16), must_observe=['ops_faulted', 'resumptions', 'budget_exhaustions_reported', 'reads_verified', 'porcupine_histories_ok']),
 'C16': P('exploration',
          'five monitors. (a) codec: 200 (quick) / 5000 (thorough) generated argument lists for a Func with parameters (int, string, float64, []int, '
          'map, struct, *struct, interface{}, interface{}, Slice) -- boundary scalars, nil/empty/non-empty slices and maps, zero and nested structs, '
          'nil and non-nil pointers, interface parameters holding int/string/struct/pointer/[]string/map/nil -- are encoded as the executor does and '
          'decoded as a worker does (verif exports); every argument must come back equal (nil and empty slices/maps are identified, as gob does). '
          '(b) end to end: 24 / 400 argument lists are run on a testsystem (every 4th locally); the Func builds its rows from a description of the '
          'arguments it received, so the rows scanned show what the process running the tasks saw, including with a nested Result argument; they must '
          'equal the description of what the driver passed. (c) unencodable arguments (chan, func, struct with only unexported fields, struct with a '
          'chan) passed through an interface parameter: Run must return an error within the watchdog with zero Worker.Run RPCs observed by the '
          'interposer. (d) FuncLocationsDiff over all pairs of location lists over a 3-letter alphabet up to length 4 (14641 pairs; thorough 5: '
          '132496): nil iff equal, and the script (drop "- ", keep plain, insert "+ ") transforms the first list into the second; exhaustive; a typed nil pointer held in an interface parameter (rejected or intact, never an untyped nil at the worker); unencodable values also on the lazy path (argument of an invocation that runs no '
          'tasks and returns its Result argument, consumed by a later invocation); a `resubmitting lost task` line after the run started is a retry. '
          '(e) result graphs on fresh workers: every DAG of 3-4 (thorough 5) results in which each Func consumes two earlier results (40 / 616 '
          'shapes) is run on a testsystem of 1-proc machines; the last Func has 6 shards so that it runs on machines that have compiled none of the '
          'earlier invocations (fresh=scale), or every machine is killed before it (fresh=kill; quick: every 4th shape): it must succeed with the '
          'reference rows (after a kill the documented give-up is counted, not flagged). '
          'Non-trivial: every case that completed.',
          nbatch=(8, 16), must_observe=['typed_nil_in_interface_rejected', 'arg_lists_roundtripped', 'e2e_invocations', 'e2e_with_result_argument', 'unencodable_rejected', 'location_list_pairs_diffed',
                                        'result_graphs_evaluated_on_fresh_workers', 'graph_compile_rpcs_for_last_func']),
 'C02': P('fault_enumeration',
          'cases = (program of the fault suite {map-only, reduce, cogroup, fold, two-stage shuffle, reused result}, kill plan). Kill plans: none; one '
          'kill at (RPC method in {Worker.Compile, Run, Stat, Read, FuncLocations}, k-th call of that method, before forwarding | after the reply was '
          'received and before it is handed back) of the machine addressed, for every ordinal up to a per-method bound taken from failure-free traces '
          '(thorough; quick: first/middle/last ordinal); held-reply kills: the complete reply of the k-th Worker.Run is taken off the wire, its '
          'machine is killed, and the reply is delivered once the executor has logged the loss of that machine; mid-body kills: the reply of the k-th Worker.Read is cut in the middle of its body with its machine killed (shuffle reads and the final '
          'scan), also held back until the executor has logged the loss so that the retry resumes at its offset on recomputed output; a kill of a random machine after the k-th Worker.Run; seeded pairs of kills (12 / 500). Read '
          'ordinals beyond those of the run hit the final scan. Every case runs in a fresh session on a testsystem (2 procs per machine, keepalive '
          '50/100 ms, fast bounded read-retry policy) with machine combiners off; kills are performed by an RPC interposer around the testsystem\'s '
          'HTTP client. Oracle: Run+scan succeed with exactly the reference rows, or an error is reported; after a single kill an error from Run must '
          'be the documented give-up, and after a held-reply kill (the loss was recorded before the completion was learnt of, replacements available) '
          'any error is a violation; machine losses the monitor did not cause (the executor logs `lost machine` for a machine that was not killed: keepalive '
          'timeouts on a starved host) make the run an ordinary loss scenario (error acceptable, wrong rows not); a run that neither returns within 150 s nor shows RPC activity for 100 s is a hang (else inconclusive). '
          'Non-trivial: a machine was actually killed.',
          nbatch=(16, 16), timeout=(1200, 3400),
          must_observe=['machines_killed', 'recoveries', 'runs_correct', 'replies_delivered_after_their_machine_was_seen_stopped', 'read_replies_cut_mid_body']),
}


# additions of the sixth round of seeded changes (appended to the rule texts above)
_ROUND6 = {
 'C03': 'an executor that cannot record a task\'s outcome because an evaluation keeps the task\'s lock is a stall too: proved by a lock-free watcher from two goroutine profiles in which every goroutine of the evaluation and of the adversary is parked (one of them inside exec.(*Task) on a mutex), also after every evaluation has returned.',
 'C04': 'a same-shaped-branches family (16 programs: 2-4 branches of one operator sequence - const, readerfunc>map, const>reduce, readerfunc>map>reduce - with different data, joined by one or two Cogroups) on local, a testsystem, and a testsystem with machine combiners.',
 'C05': 'every second child process first meets the cross-process key sets through single-shard aggregations (hashed by the combiner, not by the partitioner), so that the processes compared differ in their history.',
 'C08': 'a combine key is carried by the tasks of one stage only and is the key named by the consumers of that stage.',
 'C11': 'every case with more than one column also runs with the frame built by frame.Values over columns of unequal capacity (column 0 with room for 3 more rows, all of it in storage the monitor owns).',
 'C12': 'operation discard-cancelled (a Discard whose context has already ended, then reuse); every kind of first use of a result (each redistribution, to one and to several shards, and a pipelined one) followed by pipelined and redistributing later uses of the same result; a Func over a result that has not returned after 120 s with no RPC other than keepalives for 80 s (or with every goroutine inside bigslice parked) is a hang, a watchdog alone stays inconclusive.',
 'C13': 'a run that completed although a file operation had failed (the failed attempt was retried) must have left a file for every shard, as any completed run.',
 'C14': 'every machine the script killed must leave the manager\'s state altogether, whatever queue it was in; fixed histories stop a machine that is idle, loaded, and on probation with and without further tasks.',
 'C15': 'the scripted remote stream is withdrawn after 2 x failures + 60 re-opens, so that a reader that never gives up comes back and is reported (retry-budget-not-enforced).',
 'C16': '(f) registry: the list this process reports for its own registry (FuncLocations) must name, per Func, the source line of its bigslice.Func call (read from the source file), pairwise distinct, and every transposition of it must be told apart by FuncLocationsDiff.',
}
for _k, _v in _ROUND6.items():
    PROPS[_k]['rule'] += ' Sixth round: ' + _v

META = {
 'C11': dict(
    text='Exploration: the real frame package is driven through every single operation on every view of small frames and through '
         'random operation sequences, with a plain slice-of-rows model as oracle and full-storage comparison after every step; '
         'thorough adds a checkptr build for the unsafe pointer arithmetic. Held on the executions produced, not a proof.',
    note='Trusts the model (c11.go), reflect, the build shim. Frames are built over Go slices owned by the monitor.',
    technique='model-based runtime monitoring (slice-of-rows reference model, canary storage comparison, checkptr build)'),
 'C07': dict(
    text='Fault enumeration: the real encoder/decoder pair is run on every single-bit flip and truncation point of small streams '
         '(exhaustive for those streams) and on random bursts, plus a fidelity sweep over batch/destination size scripts; the oracle '
         'is the written row sequence. Known, unrepairable-by-a-small-patch classes are listed in known_findings.json by signature.',
    note='Trusts encoding/gob, the row model and the destination adversary (readers.go). CRC32 collisions are ignored.',
    technique='fault-injection over the byte stream with a written-rows oracle; destination-frame canaries; coverage-guided fuzzing of the decoder (thorough)'),
 'C10': dict(
    text='Exploration: the real sortio readers are run on generated streams with hostile spill/canary/batch sizes, upstream chunkings and '
         'destination sizes; the oracle is a sort/merge/fold over the row model.',
    note='Trusts the row model and comparison functions of universe.go and the chunk/destination adversaries; merge and reduce-merge '
         'inputs never return (0,nil) (documented as end of input).',
    technique='property-based runtime monitoring with reference sort/merge/fold oracle, temp-dir leak check'),
 'C17': dict(
    text='Exploration: every reader the library builds is driven by a destination adversary (scripted sizes, canary rows, retained frames) '
         'over a chunking adversary, against row-level reference semantics.',
    note='ReaderFunc is exempt from the canary check (the whole destination is handed to the user function by API design); reduce never '
         'gets (0,nil) upstream reads (documented end of input); destination contents after a failed call are not asserted.',
    technique='contract monitoring with destination/chunking adversaries and reference operator semantics'),
 'C09': dict(
    text='Exploration: the real combining frame and spilling combiner (through the verif exports) are fed exhaustively enumerated small '
         'key sequences and large skewed streams at hostile capacities and spill thresholds; oracle is a map fold.',
    note='Uses exec.VerifMakeCombiningFrame/VerifNewCombiner (tag verif). Combine functions are commutative and associative.',
    technique='bounded-exhaustive + random runtime monitoring against a map model; temp-dir leak check'),
 'C18': dict(
    text='Exhaustive over a finite universe of slice types and function signatures: each constructor is called and its acceptance, panic '
         'type/location and result shape are compared with an independently written schema table; combinations the docs do not settle are '
         'only checked for panic shape.',
    note='The table encodes the doc comments; prefix inheritance of Map/Flatmap and Fold accumulator key kinds are treated as undocumented.',
    technique='exhaustive enumeration with an independent schema table as oracle'),
 'C01': dict(
    text='Exploration: generated and enumerated programs are run through real sessions (local and testsystem-distributed) and compared '
         'with a sequential reference evaluation of the documented operator meanings; violations are minimised by re-running the real code.',
    note='Trusts the reference evaluator (progref.go) and the pure user functions shared by program and oracle. Fold is never fed prefix>1 '
         'inputs (documented BUG), Map/Flatmap never consume prefix>1 inputs (C18 known finding), uint8 columns are left to C05. '
         'Exactly-once of callbacks is asserted only for programs without shared sub-slices (shared sub-slices are recompiled per partitioning by design).',
    technique='differential runtime monitoring against a reference evaluator, with delta-debugging of witnesses'),
 'C05': dict(
    text='Exploration: real sessions redistribute enumerated and boundary key sets; placement is observed by a WriterFunc in the consumer task and '
         'checked for functional dependence on (key, shard count) within a run, across runs and across OS processes.',
    note='Key equality is Go == on the key columns (+0 == -0, bytes.Equal for []byte). NaN keys are excluded by the property.',
    technique='runtime monitoring of shard placement with cross-run and cross-process consistency oracles'),
 'C04': dict(
    text='Exploration: differential execution of the same program under many execution strategies, with the reference evaluator as a third opinion.',
    note='Size parameters copied at package init (root package, sliceio, sortio vector size) cannot be varied; chunk rows only powers of two '
         '(documented precondition of the combining hash table); counters are not compared when a Head is present.',
    technique='differential runtime monitoring across execution configurations'),
 'C20': dict(
    text='Exploration: algebraic laws of Scope/Counter checked step by step against a model, plus end-to-end totals on both executors; thorough adds the race detector for concurrent increments.',
    note='Counters are registered at package init in a fixed order. Failure-free runs only.',
    technique='model-based law checking + end-to-end conservation check (increments performed == increments reported)'),
 'C08': dict(
    text='Exploration: the real compiler is run on generated invocations through the driver and worker code paths (verif exports) and its '
         'output compared for determinism and checked against structural invariants stated on the slice DAG.',
    note='Uses exec.VerifMakeInvocation/Compile/Encode/VerifDecodeInvocation. Cached shards (dependencies dropped) are covered by C13.',
    technique='determinism (repeat / transport / cross-process) and structural invariant monitoring of compiled graphs'),
 'C12': dict(
    text='Exploration: histories of run/scan/derive/discard/kill are executed against real sessions; each operation is judged at the API '
         'boundary against the reference rows of the (deterministic) programs involved.',
    note='Because the value of a result never changes, the per-operation oracle is equivalent to a linearizability check against a constant '
         'register, so porcupine is not needed here. After a machine kill the documented give-up errors are counted, not flagged.',
    technique='history-based runtime monitoring at the API boundary with a reference evaluator'),
 'C06': dict(
    text='Fault enumeration over the user-function call sites: failures are scripted inside the real user functions of real runs; the outcome of '
         'Run, the survival of the driver process, the invocation count and the usability of the session afterwards are observed.',
    note='Which of the three reduce-combiner sites a given call index hits depends on the executor; first/boundary/last indices cover the '
         'task-local table and the consumer-side merge, machine-combiner sessions the shared buffer.',
    technique='fault injection in user callbacks with outcome, crash and invocation-count monitors'),
 'C13': dict(
    text='Fault enumeration over the file operations of the cache write-through, observed and injected at the base/file layer, combined with a '
         'two-run protocol (all subsets of pre-existing shard files) that checks transparency and skipped recomputation per shard.',
    note='Shard files are judged by decoding them as the cache reader does (zstd + row codec); temp files that were never committed are not '
         'cache files. The fault-free trace defines the ordinal space; runs with a fault that never fired are counted, not judged.',
    technique='fault injection at the file layer with complete-or-absent and per-shard recomputation oracles'),
 'C19': dict(
    text='Exploration under the race detector: sets of programs sharing a Result are started together with scans and discards alongside, under '
         'perturbed schedules; results are compared with solo reference rows and shared-task executions are checked for overlap.',
    note='Schedule perturbation is placed in user functions and at RPC boundaries (never inside library locks). Race reports wholly inside '
         'bigmachine/base are not counted. murmur3 is exempt from checkptr (forms a one-past-the-end pointer).',
    technique='Go race detector + differential result check + overlap monitor on shared task executions'),
 'C03': dict(
    text='Exploration: the real evaluator is run against an adversarial executor over enumerated and random outcome histories; a trace oracle over '
         'logical timestamps checks readiness at hand-off, exclusivity, need, the return verdict and progress.',
    note='Which interleaving is explored depends on goroutine scheduling (quiescence is detected by spinning); verdicts depend only on logical '
         'timestamps and, for stalls, on two goroutine profiles. enableMaxConsecutiveLost is at its default (true).',
    technique='adversarial-executor runtime monitoring with a trace oracle; goroutine-profile stall proof'),
 'C14': dict(
    text='Exhaustive differential check of the placement function against an independent statement of the documented rule; invariant monitoring '
         'of the live manager on state snapshots taken inside its own goroutine; quiescence checks after every exit path of real runs.',
    note='Hooks: exec.VerifSchedule, VerifNewManager/Offer/Done, verifManagerLoop (one call at the top of machineManager.Do; no-op without the tag). '
         'Ties between equally loaded machines and equal requests are unspecified and compared by value only.',
    technique='exhaustive differential testing + invariant monitoring on hooked state snapshots + conservation (procs granted == procs returned)'),
 'C15': dict(
    text='Fault enumeration at the file layer against a partition model, exhaustive failure positions for the resuming reader, and '
         'linearizability checking (porcupine) of concurrent store histories.',
    note='Uses exec.VerifFileStore/VerifMemoryStore/VerifNewRetryReader/VerifSetRetryPolicy. A Commit after a Write that itself reported an '
         'error is the caller\'s mistake and is not judged. Reads may fail in concurrent histories (entry discarded under the reader).',
    technique='fault injection with a model oracle; exhaustive failure-position enumeration; porcupine linearizability check'),
 'C16': dict(
    text='Round-trip and end-to-end monitoring of invocation transport over a universe of argument lists, a prompt-failure check for '
         'unencodable arguments observed at the RPC boundary, and an exhaustive differential check of the location diff.',
    note='Interface-held pointer types are registered with gob as pointers only (gob names a type after its base type, so T and *T cannot both be '
         'registered); nil vs empty slices/maps are not distinguished (gob semantics).',
    technique='round-trip and end-to-end runtime monitoring; exhaustive enumeration for the diff'),
 'C02': dict(
    text='Fault enumeration over RPC boundaries: an interposer kills the addressed (or a random) machine at chosen call ordinals of real runs; '
         'outcome and rows are compared with a failure-free reference.',
    note='Keepalive timing inside bigmachine decides whether '
         'a loss is noticed before the five fast resubmissions are used up: give-up errors are counted, not flagged. Machine-combiner sessions are '
         'excluded by the property.',
    technique='crash-point fault injection at the RPC boundary with a reference-rows oracle and a bounded-progress (stall) rule'),
}
