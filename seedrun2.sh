#!/bin/bash
# seedrun2.sh <id> <check[:thorough]>... : run checks against the scratch worktree /tmp/sv-<id>
# (a worktree of /repo HEAD with the seeded change applied, as left by /opt/seedtools/verify.sh,
# or created here from seeded/<id>/patch.diff). /repo itself is not touched, so this can run
# while other checks run against /repo.
ID=$1; shift
WT=/tmp/sv-$ID
if [ ! -d $WT ]; then
  git -C /repo worktree add -q --detach $WT HEAD || exit 1
  git -C $WT apply /verif/seeded/$ID/patch.diff || { echo "patch does not apply"; exit 1; }
fi
git -C $WT diff --stat HEAD -- . ':!*_test.go' | tail -1
for c in "$@"; do
  tier=quick; case $c in *:thorough) tier=thorough; c=${c%:thorough};; esac
  (cd /verif && VERIF_REPO=$WT ./check $c $tier 2>&1 | grep -E "^\[C|VIOLATION|INCONCLUSIVE|signature|KNOWN" | cut -c1-260)
done
