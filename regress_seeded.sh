#!/bin/bash
# regress_seeded.sh [id-prefix...] : run every stored seeded change (seeded/<id>/patch.diff) against the
# quick tier of the checks named in its meta.json ("Cxx quick"), each in its own scratch worktree of
# /repo HEAD (removed afterwards). One line per change: CAUGHT / MISSED and by which checks.
cd "$(dirname "$(readlink -f "$0")")"
for d in seeded/*/; do
  id=$(basename $d)
  if [ $# -gt 0 ]; then m=0; for p in "$@"; do case $id in $p*) m=1;; esac; done; [ $m = 1 ] || continue; fi
  if grep -q '"stale"' $d/meta.json; then echo "STALE $id (patch no longer applies, see meta.json)"; continue; fi
  checks=$(python3 -c "
import json,re,sys
d=json.load(open('$d/meta.json'))
# checks named before any 'MISSED' note
t=d['caught_by'].split('MISSED')[0]
print(' '.join(sorted(set(re.findall(r'(C\d\d) quick', t)))))")
  out=$(./seedrun2.sh $id $checks 2>&1)
  git -C /repo worktree remove --force /tmp/sv-$id 2>/dev/null
  caught=$(echo "$out" | grep -E "^\[C.. quick" | awk '{for(i=1;i<=NF;i++) if($i ~ /^violations=/){split($i,a,"="); if(a[2]>0) print substr($1,2)}}' | tr '\n' ' ')
  if [ -n "$caught" ]; then echo "CAUGHT $id by: $caught(ran: $checks)"; else echo "MISSED $id (ran: $checks)"; echo "$out" | tail -3; fi
done
