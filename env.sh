# sourced by setup.sh and by ./check (through python's env dict too)
export GOFLAGS=-mod=mod GOPROXY=off GOSUMDB=off GOTOOLCHAIN=local GODEBUG=goindex=0
export VERIF_REPO=${VERIF_REPO:-/repo}
