#!/usr/bin/env python3
"""seedstore.py <agent-id> <name> <property> <pkg> <runregex> <change> <needs> <caught_by> [ran...]"""
import json, os, shutil, sys, glob
aid, name, prop, pkg, run, change, needs, caught = sys.argv[1:9]
ran = sys.argv[9:]
src = f'/tmp/seed-out-{aid}'
dst = f'/verif/seeded/{name}'
os.makedirs(dst + '/demo', exist_ok=True)
p = src + '/patch.rebased.diff'
if not os.path.exists(p) or os.path.getsize(p) == 0:
    p = src + '/patch.diff'
shutil.copy(p, dst + '/patch.diff')
for f in glob.glob(src + '/demo/*'):
    if os.path.isfile(f) and os.path.getsize(f) < 200000:
        shutil.copy(f, dst + '/demo/')
if os.path.exists(src + '/notes.md'):
    shutil.copy(src + '/notes.md', dst + '/notes.md')
json.dump(dict(id=name, property=prop, change=change, needs=needs, caught_by=caught,
               demo=dict(package=pkg, run=run, command=f'/opt/seedtools/seedtest.sh <worktree> {pkg} -run {run}'),
               confirmed=['demo passes without the patch and fails with it in a fresh worktree of /repo HEAD', 'baseline suite passes with the patch'] + ran,
               origin='independent sub-agent given only the property text and a scratch worktree'),
          open(dst + '/meta.json', 'w'), indent=1)
print('stored', dst)
