#!/usr/bin/env python3
"""Regenerate the generated blocks of DESIGN.md (findings table, seeded-change table)."""
import json, os, re, glob
V = os.path.dirname(os.path.abspath(__file__))
k = json.load(open(V + '/known_findings.json'))['findings']
rows = []
seen = set()
for f in k:
    key = (f['property'], f['status'], f.get('commit', ''), f['what'][:60])
    if key in seen:
        continue
    seen.add(key)
    what = f['what'].split('; witness')[0]
    wit = ''
    m = re.search(r'witness (\S+)', f['what'])
    if m:
        wit = m.group(1).rstrip(')')
    rows.append(f"| {f['property']} | {f['status']}{' `'+f['commit']+'`' if f.get('commit') else ''} | {what} | `{wit}` |")
fix = "| prop | status | what failed | witness |\n|---|---|---|---|\n" + "\n".join(rows)
seeded = []
for m in sorted(glob.glob(V + '/seeded/*/meta.json')):
    d = json.load(open(m))
    seeded.append(f"| {d['id']} | {d['property']} | {d['change']} | {d['needs']} | {d['caught_by']} |")
st = "| id | property | change | needs, to manifest | caught by |\n|---|---|---|---|---|\n" + "\n".join(seeded) if seeded else "(none yet)"
s = open(V + '/DESIGN.md').read()
s = re.sub(r'<!-- FINDINGS-BEGIN -->.*?<!-- FINDINGS-END -->', '<!-- FINDINGS-BEGIN -->\n' + fix + '\n<!-- FINDINGS-END -->', s, flags=re.S)
s = re.sub(r'<!-- SEEDED-BEGIN -->.*?<!-- SEEDED-END -->', '<!-- SEEDED-BEGIN -->\n' + st + '\n<!-- SEEDED-END -->', s, flags=re.S)
open(V + '/DESIGN.md', 'w').write(s)
print(len(rows), 'findings;', len(seeded), 'seeded changes')
